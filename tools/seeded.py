#!/venv/bin/python
"""
seeded.py confirm <name> <property> <srcdir>   - verify an independently written seeded defect
        (patch.diff + demo.py/demo.sh in <srcdir>): patch applies to /repo's HEAD, the 82 pinned
        tests still pass, the demo passes without and fails with the change; then store it under
        /verif/seeded/<name>/ with meta.json.
seeded.py run <name> [tier]                    - run the property's check against a scratch copy with the
        seeded change applied (EVO_VERIF_REPO) and record whether it is detected.
All scratch copies live under /dev/shm and are removed afterwards; /repo is never modified.
"""
import json, os, re, shutil, subprocess, sys, time
VERIF = os.path.dirname(os.path.dirname(os.path.abspath(__file__)))
SEEDED = os.path.join(VERIF, "seeded")


def export_repo(d):
    shutil.rmtree(d, ignore_errors=True)
    os.makedirs(d + "/home")
    subprocess.run("cd /repo && git ls-files -z | xargs -0 cp --parents -t " + d, shell=True, check=True)


def run_demo(demo, tree, timeout=600):
    home = tree + "/home-demo"
    shutil.rmtree(home, ignore_errors=True)
    os.makedirs(home)
    cmd = ["bash", demo] if demo.endswith(".sh") else ["/venv/bin/python", demo]
    env = dict(os.environ, HOME=home, PYTHONPATH=tree, MPLBACKEND="Agg", PYTHONDONTWRITEBYTECODE="1")
    r = subprocess.run(cmd, cwd=tree, env=env, capture_output=True, text=True, timeout=timeout)
    return r.returncode, (r.stdout + r.stderr)[-600:]


def run_tests(tree):
    t = subprocess.run(["/venv/bin/python", "-m", "pytest", "-q", "-p", "no:cacheprovider", "--timeout=900",
                        "--continue-on-collection-errors"], cwd=tree, capture_output=True, text=True,
                       env=dict(os.environ, HOME=tree + "/home", PYTHONDONTWRITEBYTECODE="1", MPLBACKEND="Agg"))
    m = re.search(r"(\d+) passed", t.stdout)
    f = re.search(r"(\d+) failed", t.stdout)
    return (int(m.group(1)) if m else 0), (int(f.group(1)) if f else 0)


def confirm(name, prop, src):
    d = f"/dev/shm/evo-seed-{os.getpid()}"
    try:
        export_repo(d)
        demo = [f for f in ("demo.py", "demo.sh") if os.path.exists(os.path.join(src, f))][0]
        dst = os.path.join(SEEDED, name)
        os.makedirs(dst, exist_ok=True)
        for f in ("patch.diff", demo, "notes.md"):
            if os.path.exists(os.path.join(src, f)):
                shutil.copy(os.path.join(src, f), os.path.join(dst, f))
        demo_path = os.path.join(dst, demo)
        rc0, out0 = run_demo(demo_path, d)
        a = subprocess.run(["git", "apply", "--whitespace=nowarn", os.path.join(dst, "patch.diff")], cwd=d, capture_output=True, text=True)
        if a.returncode != 0:
            print("patch does not apply:", a.stderr)
            return 1
        passed, failed = run_tests(d)
        rc1, out1 = run_demo(demo_path, d)
        ok = rc0 == 0 and rc1 != 0 and passed == 82
        notes = ""
        if os.path.exists(os.path.join(dst, "notes.md")):
            notes = open(os.path.join(dst, "notes.md")).read()
        meta = {
            "name": name, "property": prop, "origin": "independent sub-agent given only the property text and a scratch worktree",
            "confirmed": ok,
            "confirmation": {"demo_exit_unchanged_tree": rc0, "demo_exit_changed_tree": rc1, "pinned_tests_passed_with_change": passed,
                             "pinned_tests_failed_with_change": failed,
                             "commands": ["export of /repo HEAD to /dev/shm scratch", "python demo (unchanged)", "git apply patch.diff",
                                          "pytest -q -p no:cacheprovider --timeout=900 --continue-on-collection-errors", "python demo (changed)"]},
            "needs_to_manifest": "",
            "demo_output_changed_tail": out1[-300:],
            "checks": {},
        }
        old = os.path.join(dst, "meta.json")
        if os.path.exists(old):
            o = json.load(open(old))
            meta["needs_to_manifest"] = o.get("needs_to_manifest", "")
            meta["checks"] = o.get("checks", {})
        json.dump(meta, open(old, "w"), indent=1)
        print(json.dumps({k: meta[k] for k in ("name", "property", "confirmed", "confirmation")}, indent=1))
        return 0 if ok else 1
    finally:
        shutil.rmtree(d, ignore_errors=True)


def run(name, tier="quick", props=None):
    dst = os.path.join(SEEDED, name)
    meta = json.load(open(os.path.join(dst, "meta.json")))
    d = f"/dev/shm/evo-seed-{os.getpid()}-{name}"
    try:
        export_repo(d)
        r = subprocess.run(["git", "apply", "--whitespace=nowarn", os.path.join(dst, "patch.diff")], cwd=d, capture_output=True, text=True)
        if r.returncode != 0:
            raise SystemExit(f"{name}: patch.diff does not apply to /repo's HEAD - run tools/refresh_patches.py:\n{r.stderr}")
        for prop in (props or [meta["property"]]):
            t0 = time.time()
            cmd = ["/venv/bin/python", os.path.join(VERIF, "bin/check"), prop, "--tier", tier, "--no-selftest"]
            if os.environ.get("SENS_BUDGET"):
                cmd += ["--budget", os.environ["SENS_BUDGET"]]
            if os.environ.get("SENS_WORKERS"):
                cmd += ["--workers", os.environ["SENS_WORKERS"]]
            c = subprocess.run(cmd, cwd=VERIF, capture_output=True, text=True, env=dict(os.environ, EVO_VERIF_REPO=d, EVO_VERIF_NO_EVIDENCE="1"))
            sigs = [l.strip() for l in c.stdout.splitlines() if "violation class=" in l]
            viol = [l for l in c.stdout.splitlines() if l.startswith("VIOLATION")]
            rec = {"tier": tier, "exit": c.returncode, "detected": c.returncode == 1 and bool(viol), "sigs": sigs, "wall_s": round(time.time() - t0, 1)}
            meta["checks"].setdefault(prop, {})[tier] = rec
            print(name, prop, json.dumps(rec))
            if c.returncode == 2:
                print(c.stdout[-1500:])
        json.dump(meta, open(os.path.join(dst, "meta.json"), "w"), indent=1)
    finally:
        shutil.rmtree(d, ignore_errors=True)


if __name__ == "__main__":
    if sys.argv[1] == "confirm":
        sys.exit(confirm(*sys.argv[2:5]))
    elif sys.argv[1] == "run":
        run(sys.argv[2], sys.argv[3] if len(sys.argv) > 3 else "quick", sys.argv[4:] or None)
