#!/venv/bin/python
"""
selftest_all.py [ID ...] - runs, for every claimed property, all sensitivity mutants (must be caught), all benign
changes (must stay quiet) and all seeded defects (recorded), each against a scratch copy of /repo, and
writes selftest/RESULTS.md + selftest/results.json.  Takes ~45 minutes for everything.
"""
import glob, json, os, subprocess, sys, time
sys.path.insert(0, os.path.dirname(os.path.abspath(__file__)))
import sensitivity
VERIF = sensitivity.VERIF
RENDER_ONLY = "--render" in sys.argv  # re-read results.json, take the seeded results from the meta.json files (items re-run alone)
PROPS = [a for a in sys.argv[1:] if not a.startswith("--")] or ["C19", "C18", "C17", "C16", "C08"]
budget = os.environ.get("SENS_BUDGET", "30")
out = {"when": time.strftime("%Y-%m-%d %H:%M"), "repo_head": subprocess.run(["git", "-C", "/repo", "rev-parse", "--short", "HEAD"], capture_output=True, text=True).stdout.strip(),
       "verif_head": subprocess.run(["git", "-C", VERIF, "rev-parse", "--short", "HEAD"], capture_output=True, text=True).stdout.strip(),
       "budget_s": budget, "mutants": {}, "benign": {}, "seeded": {}}
# PARALLEL items at a time, each check with SENS_WORKERS worker processes
from concurrent.futures import ThreadPoolExecutor
PARALLEL = int(os.environ.get("SELFTEST_PARALLEL", "3"))
os.environ.setdefault("SENS_WORKERS", "6")


def one_patch(args):
    kind, prop, p = args
    r = sensitivity.run(prop, p, budget=budget)
    r.pop("tail", None)
    print(kind, prop, json.dumps(r)[:200]); sys.stdout.flush()
    return kind, prop, r


def seeded_record(name):
    meta = json.load(open(os.path.join(VERIF, "seeded", name, "meta.json")))
    rec = {"property": meta["property"], "status_at_head": meta.get("status_at_head") or meta.get("note"), "result": meta["checks"].get(meta["property"], {}).get("quick")}
    # a change written for one property may break another one: the check of that property reports it
    other = {k: v.get("quick") for k, v in meta["checks"].items() if k != meta["property"] and (v.get("quick") or {}).get("detected")}
    if other:
        rec["detected_by_other_check"] = other
    return name, rec


def one_seeded(name):
    subprocess.run([os.path.join(VERIF, "tools", "seeded.py"), "run", name, "quick"], env=dict(os.environ, SENS_BUDGET=str(max(40, int(budget)))))
    return seeded_record(name)


jobs = []
for prop in PROPS:
    for kind, sub in (("mutants", "mutants"), ("benign", "benign")):
        out[kind][prop] = []
        for p in sorted(glob.glob(os.path.join(VERIF, "selftest", sub, prop, "*.patch"))):
            jobs.append((kind, prop, p))
names = []
for d in sorted(glob.glob(os.path.join(VERIF, "seeded", "*"))):
    meta = json.load(open(os.path.join(d, "meta.json")))
    if meta["property"] in PROPS:
        names.append(os.path.basename(d))
if RENDER_ONLY:
    out = json.load(open(os.path.join(VERIF, "selftest", "results.json")))
    budget = out["budget_s"]
    for name in names:
        _, rec = seeded_record(name)
        before = (out["seeded"].get(name, {}).get("result") or {}).get("detected")
        if before is False and (rec["result"] or {}).get("detected"):
            rec["rerun_alone"] = True  # missed while three checks shared the machine, caught when run alone
        elif out["seeded"].get(name, {}).get("rerun_alone"):
            rec["rerun_alone"] = True
        out["seeded"][name] = rec
else:
  with ThreadPoolExecutor(PARALLEL) as ex:
    for kind, prop, r in ex.map(one_patch, jobs):
        out[kind][prop].append(r)
    for name, rec in ex.map(one_seeded, names):
        out["seeded"][name] = rec
json.dump(out, open(os.path.join(VERIF, "selftest", "results.json"), "w"), indent=1)
L = [f"# Self-test results ({out['when']}, /repo {out['repo_head']}, /verif {out['verif_head']}, quick tier, budget {budget}s per run)", ""]
for prop in PROPS:
    ms, bs = out["mutants"].get(prop, []), out["benign"].get(prop, [])
    L.append(f"## {prop}: {sum(1 for m in ms if m.get('caught'))}/{len(ms)} mutants caught, {sum(1 for b in bs if b.get('exit') == 0)}/{len(bs)} benign changes quiet")
    L.append("")
    L.append("| change | kind | pinned tests passing | check exit | violation signatures | wall s |")
    L.append("|---|---|---|---|---|---|")
    for kind, rs in (("mutant", ms), ("benign", bs)):
        for r in rs:
            sigs = ", ".join(sorted({s.split("sig=")[1] for s in r.get("sigs", []) if "sig=" in s}))
            L.append(f"| {r['mutant']} | {kind} | {r.get('tests_passed')} | {r.get('exit')} | {sigs} | {r.get('wall_s')} |")
    L.append("")
L.append("## Seeded defects (independent sub-agents)")
L.append("")
L.append("`detected` is the quick run of the property's own check; a change that breaks another property is reported by")
L.append("that property's check (named in the note). Items marked *re-run alone* were missed while three checks shared the")
L.append("machine (6 workers each) and caught when the same quick command ran alone (16 workers).")
L.append("")
L.append("| name | property | detected | signatures | note |")
L.append("|---|---|---|---|---|")
n_det = n_other = 0
for name, r in out["seeded"].items():
    res = r["result"] or {}
    sigs = ", ".join(sorted({s.split("sig=")[1] for s in res.get("sigs", []) if "sig=" in s}))
    note = (r.get("status_at_head") or "")[:90]
    if r.get("rerun_alone"):
        note = "re-run alone. " + note
    for k, v in (r.get("detected_by_other_check") or {}).items():
        n_other += 0 if res.get("detected") else 1
        note = f"reported by the {k} check: " + ", ".join(sorted({s.split("sig=")[1] for s in v.get("sigs", []) if "sig=" in s})) + ". " + note
    n_det += 1 if res.get("detected") else 0
    L.append(f"| {name} | {r['property']} | {res.get('detected')} | {sigs} | {note} |")
L.append("")
L.append(f"{len(out['seeded'])} seeded changes: {n_det} reported by their own property's check, {n_other} by another property's check, "
         f"{len(out['seeded']) - n_det - n_other} not reported (reasons in the note column and in DESIGN.md 9.x).")
open(os.path.join(VERIF, "selftest", "RESULTS.md"), "w").write("\n".join(L) + "\n")
print("written selftest/RESULTS.md")
