#!/venv/bin/python
"""
refresh_patches.py [patch ...]   (default: every mutant / benign / seeded patch)
Re-bases patches that no longer apply exactly to /repo's HEAD but still apply
with fuzz (context moved by a repair): applies them with `patch -F3` in a
scratch export and rewrites the patch file as an exact diff.  Patches that do
not apply even with fuzz are reported (they have to be ported by hand).
/repo is never modified.
"""
import glob, os, shutil, subprocess, sys
VERIF = os.path.dirname(os.path.dirname(os.path.abspath(__file__)))


def export(d):
    shutil.rmtree(d, ignore_errors=True)
    os.makedirs(d)
    subprocess.run("cd /repo && git archive HEAD evo test | tar -x -C " + d, shell=True, check=True)


def main():
    patches = sys.argv[1:] or sorted(
        glob.glob(VERIF + "/selftest/mutants/*/*.patch") + glob.glob(VERIF + "/selftest/benign/*/*.patch") +
        glob.glob(VERIF + "/seeded/*/patch.diff"))
    a, b = f"/dev/shm/refresh-{os.getpid()}/a", f"/dev/shm/refresh-{os.getpid()}/b"
    failed = 0
    for p in patches:
        export(a)
        if subprocess.run(["git", "apply", "--check", "--whitespace=nowarn", p], cwd=a, capture_output=True).returncode == 0:
            continue
        export(b)
        r = subprocess.run(f"patch -p1 -F3 --no-backup-if-mismatch < {p}", shell=True, cwd=b, capture_output=True, text=True)
        if r.returncode != 0:
            print("FAIL (port by hand):", os.path.relpath(p, VERIF))
            failed += 1
            continue
        for junk in glob.glob(b + "/**/*.orig", recursive=True) + glob.glob(b + "/**/*.rej", recursive=True):
            os.remove(junk)
        # fuzz may have put a hunk into the wrong place: every touched file must still compile
        touched = [l[6:].split("\t")[0] for l in open(p) if l.startswith("+++ b/")]
        broken = [f for f in touched if f.endswith(".py") and subprocess.run(
            ["/venv/bin/python", "-m", "py_compile", os.path.join(b, f)], capture_output=True).returncode != 0]
        if broken:
            print("FAIL (fuzz misplaced a hunk, port by hand):", os.path.relpath(p, VERIF), broken)
            failed += 1
            continue
        d = subprocess.run(["diff", "-ruN", "a", "b"], cwd=os.path.dirname(a), capture_output=True, text=True).stdout
        d = "\n".join(l for l in d.split("\n") if not l.startswith("diff -ruN")) 
        open(p, "w").write(d if d.endswith("\n") else d + "\n")
        export(a)
        ok = subprocess.run(["git", "apply", "--check", "--whitespace=nowarn", p], cwd=a, capture_output=True).returncode == 0
        print("refreshed" if ok else "REFRESH FAILED", os.path.relpath(p, VERIF))
        failed += 0 if ok else 1
    shutil.rmtree(os.path.dirname(a), ignore_errors=True)
    return 1 if failed else 0


if __name__ == "__main__":
    sys.exit(main())
