#!/venv/bin/python
"""
refresh_patches.py [patch ...]   (default: every mutant / benign / seeded patch)
Re-bases patches that no longer apply exactly to /repo's HEAD (context moved by
a repair): looks for the newest commit of /repo to which the patch applies
exactly, and 3-way merges (git merge-file) every touched file from there to
HEAD.  The result must compile and the rewritten patch must apply exactly;
conflicts are reported (port by hand).  /repo is never modified.
"""
import glob, os, shutil, subprocess, sys
VERIF = os.path.dirname(os.path.dirname(os.path.abspath(__file__)))
TMP = f"/dev/shm/refresh-{os.getpid()}"


def sh(cmd, cwd=None, check=False):
    return subprocess.run(cmd, shell=True, cwd=cwd, capture_output=True, text=True, check=check)


def export(rev, d):
    shutil.rmtree(d, ignore_errors=True)
    os.makedirs(d)
    sh(f"git -C /repo archive {rev} evo test | tar -x -C {d}", check=True)


def applies(p, d):
    return sh(f"git apply --check --whitespace=nowarn {p}", cwd=d).returncode == 0


def main():
    patches = sys.argv[1:] or sorted(
        glob.glob(VERIF + "/selftest/mutants/*/*.patch") + glob.glob(VERIF + "/selftest/benign/*/*.patch") +
        glob.glob(VERIF + "/seeded/*/patch.diff"))
    revs = sh("git -C /repo log --format=%H -n 40").stdout.split()
    head, failed = f"{TMP}/head", 0
    export("HEAD", head)
    for p in patches:
        p = os.path.abspath(p)
        if applies(p, head):
            continue
        name = os.path.relpath(p, VERIF)
        base_rev = None
        for rev in revs[1:]:
            export(rev, f"{TMP}/base")
            if applies(p, f"{TMP}/base"):
                base_rev = rev
                break
        if base_rev is None:
            print("FAIL (applies to no recent commit, port by hand):", name)
            failed += 1
            continue
        export(base_rev, f"{TMP}/theirs")
        sh(f"git apply --whitespace=nowarn {p}", cwd=f"{TMP}/theirs", check=True)
        touched = [l[6:].split("\t")[0].strip() for l in open(p) if l.startswith("+++ b/")]
        export("HEAD", f"{TMP}/a")
        export("HEAD", f"{TMP}/b")
        ok = True
        for f in touched:
            cur, base, theirs = f"{TMP}/b/{f}", f"{TMP}/base/{f}", f"{TMP}/theirs/{f}"
            if not os.path.exists(base) or not os.path.exists(cur):
                shutil.copy(theirs, cur)
                continue
            r = sh(f"git merge-file -q {cur} {base} {theirs}")
            if r.returncode != 0:
                ok = False
                break
            if f.endswith(".py") and sh(f"/venv/bin/python -m py_compile {cur}").returncode != 0:
                ok = False
                break
        how = "3-way from " + base_rev[:7]
        if not ok:
            # second try: the patch applied to HEAD with fuzz (hunks whose
            # context moved only a little); every touched file must compile
            export("HEAD", f"{TMP}/b")
            r = sh(f"patch -p1 -F3 --no-backup-if-mismatch < {p}", cwd=f"{TMP}/b")
            for junk in glob.glob(f"{TMP}/b/**/*.orig", recursive=True) + glob.glob(f"{TMP}/b/**/*.rej", recursive=True):
                os.remove(junk)
            ok = r.returncode == 0 and all(
                sh(f"/venv/bin/python -m py_compile {TMP}/b/{f}").returncode == 0
                for f in touched if f.endswith(".py"))
            how = "fuzz"
        if not ok:
            print("FAIL (3-way merge conflict and no fuzzy match, port by hand):", name)
            failed += 1
            continue
        d = sh("diff -ruN a b", cwd=TMP).stdout
        d = "\n".join(l for l in d.split("\n") if not l.startswith("diff -ruN"))
        open(p, "w").write(d if d.endswith("\n") else d + "\n")
        good = applies(p, head)
        print(("refreshed (%s) " % how) if good else "REFRESH FAILED ", name)
        failed += 0 if good else 1
    shutil.rmtree(TMP, ignore_errors=True)
    return 1 if failed else 0


if __name__ == "__main__":
    sys.exit(main())
