#!/bin/bash
cd /verif
for P in C17 C16 C08 C18 C19; do
  for T in quick thorough; do
    PYTHONHASHSEED=0 EVO_VERIF_REEXEC=1 /venv/bin/python bin/check $P --digests 200 --tier $T --seed 7 2>/dev/null | grep DIGESTS > /tmp/det_${P}_${T}_a.txt
    PYTHONHASHSEED=4242 EVO_VERIF_REEXEC=1 /venv/bin/python bin/check $P --digests 200 --tier $T --seed 7 2>/dev/null | grep DIGESTS > /tmp/det_${P}_${T}_b.txt
    if cmp -s /tmp/det_${P}_${T}_a.txt /tmp/det_${P}_${T}_b.txt && [ -s /tmp/det_${P}_${T}_a.txt ]; then echo "$P $T deterministic (200 cases)"; else echo "$P $T MISMATCH"; fi
  done
done
