#!/venv/bin/python
"""
mkpatch.py OUT.patch FILE OLD NEW [FILE OLD NEW ...]
Builds a unified diff against /repo's working tree by replacing OLD with NEW
(exactly one occurrence each) in a scratch copy.  /repo is not modified.
"""
import difflib, os, sys
out = sys.argv[1]
args = sys.argv[2:]
edits = {}
for i in range(0, len(args), 3):
    f, old, new = args[i:i + 3]
    src = edits.get(f)
    if src is None:
        src = open(os.path.join("/repo", f)).read()
    if src.count(old) != 1:
        sys.exit(f"{f}: OLD occurs {src.count(old)} times: {old[:60]!r}")
    edits[f] = src.replace(old, new)
with open(out, "w") as o:
    for f, new in edits.items():
        old = open(os.path.join("/repo", f)).read()
        o.writelines(difflib.unified_diff(old.splitlines(True), new.splitlines(True), "a/" + f, "b/" + f))
print("wrote", out)
