#!/venv/bin/python
"""
sensitivity.py <PROPERTY> [patch ...]      (default: selftest/mutants/<PROPERTY>/*.patch)

For each mutant patch: export /repo's working tree to a scratch directory under
/dev/shm, apply the patch there, run the pinned tests there (must stay green),
run the property's quick check against the scratch copy (EVO_VERIF_REPO) and
expect exit 1 + a VIOLATION line.  /repo itself is never touched.  The scratch
copy is removed afterwards.
"""
import glob, json, os, re, shutil, subprocess, sys, time
VERIF = os.path.dirname(os.path.dirname(os.path.abspath(__file__)))


def run(prop, patch, tier="quick", budget=None, keep=False, tests=True):
    name = os.path.splitext(os.path.basename(patch))[0]
    d = f"/dev/shm/evo-mut-{os.getpid()}-{name}"
    shutil.rmtree(d, ignore_errors=True)
    os.makedirs(d)
    try:
        subprocess.run("cd /repo && git ls-files -z | xargs -0 cp --parents -t " + d, shell=True, check=True)
        r = subprocess.run(["git", "apply", "--whitespace=nowarn", os.path.abspath(patch)], cwd=d, capture_output=True, text=True)
        if r.returncode != 0:
            return {"mutant": name, "error": "patch does not apply: " + r.stderr[-300:]}
        passed = None
        if tests:
            os.makedirs(d + "/home", exist_ok=True)
            t = subprocess.run(["/venv/bin/python", "-m", "pytest", "-q", "-p", "no:cacheprovider", "--timeout=900",
                                "--continue-on-collection-errors"], cwd=d, capture_output=True, text=True,
                               env=dict(os.environ, HOME=d + "/home", PYTHONDONTWRITEBYTECODE="1", MPLBACKEND="Agg"))
            m = re.search(r"(\d+) passed", t.stdout)
            passed = int(m.group(1)) if m else 0
        cmd = ["/venv/bin/python", os.path.join(VERIF, "bin/check"), prop, "--tier", tier, "--no-selftest"]
        if budget:
            cmd += ["--budget", str(budget)]
        if os.environ.get("SENS_WORKERS"):
            cmd += ["--workers", os.environ["SENS_WORKERS"]]
        t0 = time.time()
        c = subprocess.run(cmd, cwd=VERIF, capture_output=True, text=True, env=dict(os.environ, EVO_VERIF_REPO=d, EVO_VERIF_NO_EVIDENCE="1"))
        viol = [l for l in c.stdout.splitlines() if l.startswith("VIOLATION")]
        sigs = [l.strip() for l in c.stdout.splitlines() if "violation class=" in l]
        return {"mutant": name, "tests_passed": passed, "exit": c.returncode, "violation_lines": len(viol), "sigs": sigs,
                "wall_s": round(time.time() - t0, 1), "caught": c.returncode == 1 and bool(viol),
                "tail": c.stdout[-400:] if c.returncode != 1 else ""}
    finally:
        if not keep:
            shutil.rmtree(d, ignore_errors=True)


def main():  # sensitivity
    prop = sys.argv[1]
    patches = sys.argv[2:] or sorted(glob.glob(os.path.join(VERIF, "selftest", "mutants", prop, "*.patch")))
    budget = os.environ.get("SENS_BUDGET")
    res = []
    for p in patches:
        r = run(prop, p, budget=budget)
        res.append(r)
        print(json.dumps(r))
        sys.stdout.flush()
    caught = sum(1 for r in res if r.get("caught"))
    print(f"# {prop}: {caught}/{len(res)} mutants caught")
    return 0 if caught == len(res) else 1


if __name__ == "__main__":
    sys.exit(main())
