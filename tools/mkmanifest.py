import json
NA = {
 "C01": "APE value is a pure function of two pose arrays and options; no schedule, clock, fault or history in the statement (DESIGN §5)",
 "C02": "RPE value is a pure function of pose arrays, delta and options (DESIGN §5)",
 "C03": "Umeyama result is a pure function of two point sets (DESIGN §5)",
 "C04": "alignment effect/optimality is a pure function of two trajectories and flags (DESIGN §5)",
 "C05": "association is a pure function of two timestamp vectors; timestamps are data, evo reads no clock (DESIGN §5)",
 "C06": "write-then-read round trip is a pure function of the object; the file only carries a value and no fault is in the statement (DESIGN §5)",
 "C07": "parse result / rejection is a pure function of the file's bytes; torn-file enumeration would reach only last-row defects (DESIGN §5)",
 "C09": "group laws of stateless math helpers (DESIGN §5)",
 "C10": "pair selection is a pure function of pose list, delta and mode (DESIGN §5)",
 "C11": "selection/splitting/merging is a pure function of trajectory and thresholds (DESIGN §5)",
 "C12": "statistics/companion arrays/unit change are pure functions of the error array and inputs (DESIGN §5)",
 "C13": "merge/tabulate is a pure function of the result list; its 'inputs unchanged' clause is exercised under C16 (DESIGN §5)",
 "C14": "projection is a pure function of pose and plane (DESIGN §5)",
 "C15": "evo_traj output is a pure function of input files and option set; fixed step order, no concurrency, time or fault (DESIGN §5)",
 "C20": "drawn artist data are a pure function of trajectory, mode and settings (DESIGN §5)",
}
CHECKS = {
 "C08": dict(
   engine="E3-object-pool",
   level=("exploration",
     "Seeded operation/read histories (8-24 steps) plus fixed 3/4-step schemas (materialise view X, mutate via Y, read Z, mutate again; for all X, Y, Z) on live PosePath3D/PoseTrajectory3D objects built either from pose matrices or from positions+quaternions. After every step every view of every object (each read first on its own deep copy, plus one copy read in a seeded order) is compared with the other views, with a longdouble SE(3) reference model applying the documented geometric effect, with derived quantities recomputed from the model, and with evo's own check(). A separate narrow family feeds pose matrices of text-file / float32 precision (view counts, evo's own check(), no foreign exception). Sampling, not proof; no fault dimension (DESIGN 4.4 says why).",
     "4.4"),
   note="Trusted: the reference model (closed-form longdouble group operations), tolerances 1e-9 relative, copy.deepcopy as a state-preserving probe. transform() is fed SE(3) only; selection ops are checked as order-preserving subsequences; empty trajectories are only asked for their count.",
   technique="deterministic simulation (history search, no fault dimension): seeded operation/read histories on live objects vs. an executable reference model, with replay and minimisation"),
 "C16": dict(
   engine="E3-object-pool",
   level=("exploration",
     "Same machine as C08 with a deriver/computation-heavy mix: derive by deepcopy / associate / split_* / merge / DataFrame, TUM, KITTI round trips, mutate either the derived object or the parent by every mutator, and run APE/RPE, ape()/rpe(), pair selection, time matching, Umeyama, writers, result merging and plots with pool objects as arguments. After every step every object that was not the receiver must be bit-for-bit equal to its previous probe and every object must still equal its own model. Sampling, not proof.",
     "4.4"),
   note="Trusted: as C08. ape()/rpe() only in their argument-preserving configurations (with alignment/projection options they process their arguments in place by design); merge_results of one result is recorded as an alias (a split_* part or a merged trajectory that IS an argument is a violation).",
   technique="deterministic simulation (history search, no fault dimension): seeded derive-mutate-inspect histories over a pool of aliased objects, bitwise snapshots + per-object reference models"),
 "C17": dict(
   engine="E2-sandbox-io",
   level=("exploration",
     "Seeded histories of 3-12 writer/CLI operations in one tmpfs sandbox (each history in a forked process; a file written by operation k is an existing target for operation k+1) plus a seeded walk over the whole configuration matrix (12 sinks incl. evo_fig, whose closing 'overwrite original file?' question is the only confirmation for rewriting its input, x exists x answer class x warnings x str/Path). A PEP 578 audit hook records every open/rename/remove/truncate of any library in one ordered log with the prompts and the 'exists, overwrite?' records; the user peer answers y/n/empty/Y/yes/'y '/' y'/text/EOF/Ctrl-C or runs out of answers; ENOSPC/EACCES is injected into confirmed writes; 15% of the histories run with CAP_DAC_OVERRIDE dropped (an ordinary user, write-protected targets); targets may be empty, symlinks, behind a symlinked directory, or arrive with the directory times restored. Oracle per pre-existing file: no mutating event before a 'y' attributed to it (bytes and inode unchanged otherwise), replaced by a valid output when confirmed or warnings disabled, no prompt when disabled, no unexpected new file. Sampling, not proof.",
     "4.3"),
   note="Trusted: the audit hook sees every Python-level file access (C-level access bypassing it would be invisible; the writers under test do none), tmpfs, in-process CLI invocation through the real parser + merge_config + main_*.run with SETTINGS restored between operations.",
   technique="deterministic simulation: histories of writer/CLI operations against a monitored real disk and a scripted faulty user peer, with disk-fault injection through the audit hook"),
 "C18": dict(
   engine="E1-simfs-vproc",
   level=("exploration",
     "Seeded histories of 5-40 evo_config / -c operations, each executed as its own virtual process (the real import-time initialise/upgrade code runs before every operation) on a simulated disk, compared after every operation with a dict model transcribed from the property text: key set, types (bool stays bool, list stays list, numeric tokens become numbers), only named keys change, subset reset, upgrade adds missing keys only, union merge hard/soft, locked SETTINGS, -c priority and per-run override, and generate/-c equivalence destination by destination for argument lists drawn from the real parsers' typed options (ints, negative numbers, multi-value). 'Overrides matching package settings for that run' is decided behaviourally: whole evo_res / evo_traj / evo_ape / evo_rpe runs (entry-point order, real run(), tables and PNG plots on the simulated disk) with a -c config must give byte-identical outputs to the same run with the overridden values stored. Sampling, not proof.",
     "4.2"),
   note="Trusted: the dict model (transcribed rules), SimFS, argparse. Documented grammar only: options before key/value groups, values never spell a key, valid pygments_style/console_logging_format, no nan/inf tokens, string-typed CLI options never get numeric-looking values.",
   technique="deterministic simulation: histories of evo_config processes on an in-memory disk vs. an executable reference model (dirty restart = process exit)"),
 "C19": dict(
   engine="E1-simfs-vproc",
   level=("fault_enumeration",
     "Crash-point sweep: for 15 canonical single-process workloads (first init on 3 home states, upgrade, reset all/subset, set, hard/soft merge) x write chunk sizes, every file-system yield point is enumerated as a kill point, an interrupt-before, an interrupt-after and (for writes) a kill inside the write, each followed by a fault-free start; plus all <=2-preemption schedules of two racing starts; plus seeded random search over 1-3 concurrent processes x 1-3 epochs x scheduler policies x kill/interrupt/short-write/stall/IO-error faults (ENOSPC EIO EACCES EBUSY EXDEV EROFS EPERM; refused publishing rename followed by a kill), processes under other locale encodings, non-ASCII and non-finite values. Invariants I1 (every instant: absent or complete, strict JSON), I2 (next start succeeds with all default keys), I3 (no unfaulted process fails). Sampling of interleavings, not proof.",
     "4.1"),
   note="Trusted: SimFS's POSIX model (O_TRUNC at open, per-description offsets, atomic rename), kill = every completed op persists (no power loss), pre-emption only at file-system operations, CPython's real buffered/text I/O layers on top of the simulated raw file.",
   technique="deterministic simulation: real settings.py/main_config.py as virtual processes on an in-memory disk under a seeded scheduler with crash-point enumeration and fault injection"),
}
def check(pid, c):
    return {
      "property_id": pid,
      "quick_cmd": f"/venv/bin/python bin/check {pid} --tier quick",
      "thorough_cmd": f"/venv/bin/python bin/check {pid} --tier thorough",
      "evidence_file": f"evidence/{pid}.json",
      "replay_cmd_template": f"/venv/bin/python bin/check {pid} --replay {{path}}",
      "engine": c["engine"],
      "level_claimed": {"category": c["level"][0], "text": c["level"][1], "design_ref": "DESIGN.md §"+c["level"][2]},
      "level_note": c["note"],
      "technique": c["technique"],
    }
import sys
extra_na = json.loads(sys.argv[1]) if len(sys.argv)>1 else {}
na = dict(NA); na.update(extra_na)
m = {
 "version": 1,
 "setup_cmd": "/venv/bin/python bin/setup",
 "hooks": {
   "guard": "EVO_VERIF",
   "enable": "no hooks in /repo: the checks replace the Python-level seams (builtins.open, os.*, input, time, tempfile names) from outside; evo is an editable install, nothing to build",
   "baseline_off_cmd": "cd /repo && /venv/bin/python -m pytest -ra -q -p no:cacheprovider --timeout=900 --continue-on-collection-errors",
   "source_commits": [],
   "add_only": True
 },
 "engines": [
   {"name": "E1-simfs-vproc", "path": "evosim/simfs.py evosim/vproc.py", "serves_properties": ["C18","C19"], "kind_free_text": "in-memory POSIX disk + baton-passing virtual processes + seeded scheduler + fault injection"},
   {"name": "E2-sandbox-io", "path": "evosim/sandbox.py", "serves_properties": ["C17"], "kind_free_text": "per-run tmpfs sandbox, PEP 578 audit hook as monitor and fault injector, scripted user peer"},
   {"name": "E3-object-pool", "path": "evosim/pool.py evosim/refmodel.py", "serves_properties": ["C08","C16"], "kind_free_text": "seeded operation histories on a pool of live trajectory objects vs. a longdouble reference model"},
 ],
 "checks": [check(p, CHECKS[p]) for p in sorted(CHECKS)],
 "not_applicable": [{"property_id": k, "reason": v} for k, v in sorted(na.items())],
 "notes": "All checks: exit 0 held / exit 1 VIOLATION / exit 2 HARNESS-ERROR (machinery fault, never a violation). known_findings.txt lists fixed and open findings."
}
json.dump(m, open('/verif/MANIFEST.json','w'), indent=1)
print("ok")
