#!/venv/bin/python
"""
benign.py <PROPERTY> [patch ...]   (default: selftest/benign/<PROPERTY>/*.patch)
Property-preserving refactors / alternative correct implementations: each is
applied to a scratch copy of /repo, the pinned tests must stay green and the
property's quick check must stay QUIET (exit 0) - the false-alarm side of the
sensitivity test.
"""
import glob, json, os, sys
sys.path.insert(0, os.path.dirname(os.path.abspath(__file__)))
import sensitivity
VERIF = sensitivity.VERIF


def main():
    prop = sys.argv[1]
    patches = sys.argv[2:] or sorted(glob.glob(os.path.join(VERIF, "selftest", "benign", prop, "*.patch")))
    bad = 0
    for p in patches:
        r = sensitivity.run(prop, p, budget=os.environ.get("SENS_BUDGET"))
        r["quiet"] = r.get("exit") == 0
        r.pop("caught", None)
        print(json.dumps(r))
        sys.stdout.flush()
        bad += 0 if r["quiet"] and r.get("tests_passed") == 82 else 1
    print(f"# {prop}: {len(patches) - bad}/{len(patches)} benign changes left the check quiet")
    return 1 if bad else 0


if __name__ == "__main__":
    sys.exit(main())
