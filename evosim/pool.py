"""
Engine E3: seeded operation histories on a pool of live evo trajectory
objects, every object checked against its own reference model (refmodel.py)
after every step.  Shared by the C08 and C16 checks.

A history is a list of explicit steps; objects are named by stable uids
("o0", "s7.1" = second output of step 7), so that a shrunk history simply
skips steps whose objects no longer exist.
"""
from __future__ import annotations

import copy
import io
import math
import random

import numpy as np

from .core import HarnessError, digest_of
from .refmodel import (LD, TrajModel, quat_to_rot, rot_to_quat, is_rotation,
                       random_unit_quat)

POS_RTOL = 1e-9
ROT_TOL = 1e-9
BETA_CAP = 1e-11

VIEWS = ("positions_xyz", "orientations_quat_wxyz", "poses_se3", "distances",
         "path_length", "num_poses", "timestamps", "speeds")


class ViewUnreadable(Exception):
    """reading a view of (a deep copy of) an object raised"""
    def __init__(self, view, exc):
        self.view = view
        self.exc = exc


class Violation(Exception):
    def __init__(self, prop, what, **detail):
        self.prop = prop
        self.what = what
        self.detail = detail


# --------------------------------------------------------------------------
# data generation (pure function of its arguments)


def gen_traj_data(seed, n, profile):
    rng = random.Random(seed)
    scale = profile.get("scale", 1.0)
    rotmode = profile.get("rot", "uniform")
    stationary = profile.get("stationary", 0.1)
    jump = profile.get("jump", 0.05)
    gap = profile.get("gap", 0.05)
    t0 = profile.get("t0", 0.0)
    dt = profile.get("dt", 0.1)
    pos = np.zeros((n, 3))
    quat = np.zeros((n, 4))
    ts = np.zeros(n)
    p = np.array([rng.gauss(0, scale) for _ in range(3)])
    modes = ["uniform", "small", "pi", "planar", "any", "half_turn",
             "quarter", "identity"]
    q = random_unit_quat(rng, rotmode if rotmode != "mixed" else
                         rng.choice(modes))
    t = t0 + rng.random()
    for i in range(n):
        if i > 0:
            r = rng.random()
            if r < stationary:
                pass  # same pose again
            else:
                step = scale * (20.0 if r > 1 - jump else 0.2)
                p = p + np.array([rng.gauss(0, step) for _ in range(3)])
                q = random_unit_quat(
                    rng, rotmode if rotmode != "mixed" else rng.choice(modes))
            t = t + dt * (0.5 + rng.random()) * (50.0 if rng.random() < gap
                                                  else 1.0)
        pos[i] = p
        quat[i] = q
        ts[i] = t
    if profile.get("qround"):
        # orientations as they come out of a text log with 6-7 decimals: unit
        # length only to ~1e-7 (still valid for evo's own check())
        quat = np.round(quat, profile["qround"])
    tz = profile.get("tzero")
    if tz == "first":
        ts = ts - ts[0]  # zero-based time, first stamp exactly 0.0
    elif tz == "mid":
        ts = ts - ts[n // 2]  # time relative to an event: negative stamps
    if profile.get("flat"):
        pos[:, profile["flat"] - 1] = 0.0
    if profile.get("offset"):
        # geo-referenced data (UTM, ECEF): a large common offset, small extent
        pos = pos + np.array(profile["offset"], dtype=float)
    if profile.get("int_stamps"):
        # frame numbers / integer ticks: an integer array is a valid argument
        ts = np.round((ts - ts[0]) * 10).astype(
            np.dtype(profile["int_stamps"]))
        ts = ts + np.arange(n, dtype=ts.dtype)  # strictly increasing
    return pos, quat, ts


def se3_from(qtrans):
    """[qw,qx,qy,qz,tx,ty,tz] -> (4x4 float64, R longdouble, t longdouble)"""
    R = quat_to_rot(qtrans[:4])
    t = np.array(qtrans[4:7], dtype=LD)
    T = np.eye(4)
    T[:3, :3] = R.astype(np.float64)
    T[:3, 3] = t.astype(np.float64)
    # the model uses exactly the float64 matrix handed to evo
    return T, T[:3, :3].astype(LD), T[:3, 3].astype(LD)


# --------------------------------------------------------------------------


class Probe:
    """all views of an object, read from deep copies (state preserving)"""
    __slots__ = ("n", "pos", "quat", "poses", "ts", "dist", "plen", "speeds",
                 "speeds_exc", "cls", "err", "meta")

    def equal_bits(self, other):
        if self.n != other.n or self.cls != other.cls:
            return "num_poses/type"
        if self.meta != other.meta:
            return "meta"
        for name in ("pos", "quat", "poses", "ts", "dist"):
            a, b = getattr(self, name), getattr(other, name)
            if (a is None) != (b is None):
                return name
            if a is not None and not (a.shape == b.shape
                                      and np.array_equal(a, b)):
                return name
        if self.plen != other.plen and not (self.plen != self.plen
                                            and other.plen != other.plen):
            return "path_length"
        return None


def _read_view(obj, view):
    if view == "poses_se3":
        ps = obj.poses_se3
        return np.array([np.array(p) for p in ps]).reshape(-1, 4, 4)
    v = getattr(obj, view)
    if isinstance(v, np.ndarray):
        return np.array(v)
    return v


class Machine:
    """executes one history"""
    def __init__(self, evo, mix, rng=None):
        self.evo = evo  # namespace of imported evo modules
        self.mix = mix
        self.rng = rng
        self.entries = {}  # uid -> Entry
        self.alias = {}  # uid -> uid of the entry it is the same object as
        self.results = {}  # uid -> (Result object, snapshot)
        self.counters = {}
        self.step_no = 0
        self.order_seed = 0

    # ---- bookkeeping
    def probe_hit(self, name, n=1):
        self.counters["probe." + name] = self.counters.get("probe." + name,
                                                           0) + n

    def count(self, name, n=1):
        self.counters[name] = self.counters.get(name, 0) + n

    def resolve(self, uid):
        uid = self.alias.get(uid, uid)
        return self.entries.get(uid)

    # ---- probing
    def probe(self, obj):
        T = self.evo.trajectory
        p = Probe()
        p.err = None
        p.cls = type(obj).__name__
        try:
            p.meta = repr(sorted(copy.deepcopy(obj.meta).items()))
        except Exception:  # noqa
            p.meta = repr(getattr(obj, "meta", None))
        stamped = isinstance(obj, T.PoseTrajectory3D)
        # every view is read first on its own fresh deep copy, so that a stale
        # cache of that view cannot be repaired by reading another view first
        vals = {}
        c = copy.deepcopy(obj)
        try:
            n_first = int(_read_view(c, "num_poses"))
        except Exception as e:  # noqa
            raise ViewUnreadable("num_poses", e)
        if n_first == 0:
            # an empty trajectory (legal result of an empty crop interval) is
            # only asked for its count: evo's other views are not defined on
            # it in every cache state (DESIGN 4.4 / 6)
            p.n = 0
            p.pos = np.zeros((0, 3))
            p.quat = np.zeros((0, 4))
            p.poses = np.zeros((0, 4, 4))
            p.dist = np.zeros(0)
            p.plen = 0.0
            p.ts = np.zeros(0) if stamped else None
            p.speeds = None
            p.speeds_exc = None
            return p
        for view in ("num_poses", "positions_xyz", "orientations_quat_wxyz",
                     "poses_se3", "distances", "path_length"):
            c = copy.deepcopy(obj)
            try:
                vals[view] = _read_view(c, view)
            except HarnessError:
                raise
            except Exception as e:  # noqa
                raise ViewUnreadable(view, e)
        p.n = int(vals["num_poses"])
        p.pos = vals["positions_xyz"]
        p.quat = vals["orientations_quat_wxyz"]
        p.poses = vals["poses_se3"]
        p.dist = vals["distances"]
        p.plen = float(vals["path_length"])
        p.ts = None
        p.speeds = None
        p.speeds_exc = None
        if stamped:
            c = copy.deepcopy(obj)
            p.ts = np.array(c.timestamps)
            c = copy.deepcopy(obj)
            try:
                p.speeds = np.array(c.speeds)
            except self.evo.EvoException as e:
                p.speeds_exc = type(e).__name__
        # one more copy, all views in a seeded order: must agree with the above
        self.order_seed += 1
        order = list(vals)
        random.Random(self.order_seed * 7919 + 13).shuffle(order)
        c = copy.deepcopy(obj)
        for view in order:
            try:
                v = _read_view(c, view)
            except Exception as e:  # noqa
                raise ViewUnreadable(view, e)
            w = vals[view]
            same = (np.array_equal(v, w) if isinstance(w, np.ndarray) else
                    (v == w or (v != v and w != w)))
            if not same:
                p.err = (f"view {view} depends on the order in which views "
                         f"are read (order {order})")
        return p

    # ---- oracle
    def check_entry(self, e, p, prop, op):
        """views agree with each other and with the model (C08-a..d)"""
        m = e.model
        T = self.evo.trajectory
        if p.err:
            raise Violation(prop, "read-order-dependent", obj=e.uid, op=op,
                            info=p.err)
        n = m.n
        if p.n != n:
            raise Violation(prop, "count", obj=e.uid, op=op, expected=n,
                            actual=p.n)
        if n == 0:
            return
        shapes = {"positions": p.pos.shape == (n, 3),
                  "quaternions": p.quat.shape == (n, 4),
                  "poses": p.poses.shape == (n, 4, 4),
                  "distances": p.dist.shape == (n, )}
        if p.ts is not None:
            shapes["timestamps"] = p.ts.shape == (n, )
        bad = [k for k, ok in shapes.items() if not ok]
        if bad:
            raise Violation(prop, "view-count", obj=e.uid, op=op, views=bad,
                            expected=n)
        if not (np.all(np.isfinite(p.pos)) and np.all(np.isfinite(p.quat))
                and np.all(np.isfinite(p.poses))):
            raise Violation(prop, "non-finite", obj=e.uid, op=op)
        maxn = max(1.0, m.max_norm())
        tol_p = POS_RTOL * maxn
        # a) views agree
        d = np.max(np.abs(p.pos - p.poses[:, :3, 3]))
        if d > 1e-12 * maxn:
            raise Violation(prop, "views-disagree", obj=e.uid, op=op,
                            which="positions vs pose matrices", max_abs=float(d))
        qn = np.sqrt(np.sum(p.quat.astype(LD)**2, axis=1))
        if np.max(np.abs(qn - 1)) > 1e-6:
            raise Violation(prop, "quaternion-not-unit", obj=e.uid, op=op,
                            max_dev=float(np.max(np.abs(qn - 1))))
        Rq = np.array([quat_to_rot(q) for q in p.quat])
        dq = np.max(np.abs(Rq - p.poses[:, :3, :3].astype(LD)))
        if dq > 1e-8:
            raise Violation(prop, "views-disagree", obj=e.uid, op=op,
                            which="quaternions vs pose matrices",
                            max_abs=float(dq))
        # b) views == model
        dp = np.max(np.sqrt(np.sum((p.pos.astype(LD) - m.p)**2, axis=1)))
        if dp > tol_p:
            i = int(np.argmax(np.sqrt(np.sum((p.pos.astype(LD) - m.p)**2,
                                              axis=1))))
            raise Violation(prop, "positions-vs-model", obj=e.uid, op=op,
                            max_abs=float(dp), tol=tol_p, index=i,
                            actual=p.pos[i].tolist(),
                            expected=m.p[i].astype(float).tolist())
        dR = np.max(np.sqrt(np.sum((p.poses[:, :3, :3].astype(LD) - m.R)**2,
                                   axis=(1, 2))))
        if dR > ROT_TOL:
            raise Violation(prop, "orientations-vs-model", obj=e.uid, op=op,
                            max_frob=float(dR))
        dRq = np.max(np.sqrt(np.sum((Rq - m.R)**2, axis=(1, 2))))
        if dRq > 1e-8:
            raise Violation(prop, "quaternions-vs-model", obj=e.uid, op=op,
                            max_frob=float(dRq))
        last = p.poses[:, 3, :]
        if np.max(np.abs(last - np.array([0, 0, 0, 1.0]))) > 1e-12:
            raise Violation(prop, "pose-last-row", obj=e.uid, op=op)
        if m.t is not None:
            if p.ts is None or not np.array_equal(p.ts, m.t):
                raise Violation(prop, "timestamps-vs-model", obj=e.uid, op=op)
        # c) derived quantities
        seg = m.seg_lengths()
        tol_len = 2 * tol_p * max(1, n)
        if abs(LD(p.plen) - np.sum(seg)) > tol_len:
            raise Violation(prop, "path-length", obj=e.uid, op=op,
                            actual=p.plen, expected=float(np.sum(seg)))
        md = m.distances()
        if np.max(np.abs(p.dist.astype(LD) - md)) > tol_len:
            raise Violation(prop, "distances", obj=e.uid, op=op,
                            max_abs=float(np.max(np.abs(p.dist.astype(LD) -
                                                        md))))
        if m.t is not None and n >= 2:
            dts = np.diff(m.t)
            if np.all(dts > 0):
                if p.speeds is None:
                    raise Violation(prop, "speeds-refused", obj=e.uid, op=op,
                                    exc=p.speeds_exc)
                exp = seg / dts.astype(LD)
                tol_s = 2 * tol_p / dts + 1e-9 * np.abs(exp.astype(float))
                if p.speeds.shape != (n - 1, ) or np.any(
                        np.abs(p.speeds.astype(LD) - exp) > tol_s):
                    raise Violation(prop, "speeds", obj=e.uid, op=op)
            elif p.speeds is not None:
                raise Violation(prop, "speeds-on-bad-stamps", obj=e.uid,
                                op=op)

    def check_validity(self, e, prop, op):
        """evo's own check() on a deep copy"""
        m = e.model
        if m.n == 0:
            return
        c = copy.deepcopy(e.obj)
        valid, details = c.check()
        bad = {k: v for k, v in details.items()
               if k != "timestamps" and not str(v).startswith(("ok", "yes"))}
        if bad:
            raise Violation(prop, "check-failed", obj=e.uid, op=op,
                            details={k: str(v) for k, v in bad.items()})
        if m.t is not None:
            asc = bool(np.all(np.diff(m.t) > 0))
            verdict = str(details.get("timestamps", "")).startswith("ok")
            if asc != verdict:
                raise Violation(prop, "check-timestamp-verdict", obj=e.uid,
                                op=op, model_says=asc, evo_says=verdict)
            if valid != (asc and not bad):
                raise Violation(prop, "check-valid-flag", obj=e.uid, op=op)
        elif not valid:
            raise Violation(prop, "check-valid-flag", obj=e.uid, op=op)


class Entry:
    __slots__ = ("uid", "obj", "model", "probe", "stamped", "origin")

    def __init__(self, uid, obj, model, stamped, origin):
        self.uid = uid
        self.obj = obj
        self.model = model
        self.probe = None
        self.stamped = stamped
        self.origin = origin


def subsequence_ids(old: Probe, new: Probe):
    """ids such that new == old[ids], order preserving, rows matched
    bit-exactly (pose, orientation and timestamp travel together); None if
    `new` is not such a subsequence"""
    ids = []
    j = 0
    for i in range(new.n):
        found = False
        while j < old.n:
            if (np.array_equal(new.pos[i], old.pos[j])
                    and np.array_equal(new.poses[i], old.poses[j])
                    and (new.ts is None or old.ts is None
                         or new.ts[i] == old.ts[j])):
                # quaternions may have been re-derived from the matrices
                ids.append(j)
                j += 1
                found = True
                break
            j += 1
        if not found:
            return None
    return ids


def selection_ids(old: Probe, new: Probe):
    """ids such that new == old[ids] row by row (bit-exact); rows may repeat
    (an association can match one pose twice); prefers non-decreasing ids"""
    ids = []
    j = 0
    for i in range(new.n):
        hit = None
        for k in list(range(j, old.n)) + list(range(0, j)):
            if (np.array_equal(new.pos[i], old.pos[k])
                    and np.array_equal(new.poses[i], old.poses[k])
                    and (new.ts is None or old.ts is None
                         or new.ts[i] == old.ts[k])):
                hit = k
                break
        if hit is None:
            return None
        ids.append(hit)
        j = hit
    return ids
