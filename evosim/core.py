"""
Shared infrastructure of the evo deterministic-simulation checks:
seeds, decision sources, worker pool, evidence, replay files, minimisation,
known-findings handling, exit codes.

Nothing in here knows about a particular property; the property modules in
evosim/checks/ provide a `Check` object (see class Check below).
"""
from __future__ import annotations

import collections
import hashlib
import json
import os
import random
import subprocess
import sys
import time
import traceback

VERIF_ROOT = os.path.dirname(os.path.dirname(os.path.abspath(__file__)))
REPO_ROOT = os.environ.get("EVO_VERIF_REPO", "/repo")
EVIDENCE_DIR = os.path.join(VERIF_ROOT, "evidence")
REPLAY_DIR = os.path.join(VERIF_ROOT, "replays")
KNOWN_FINDINGS = os.path.join(VERIF_ROOT, "known_findings.txt")

# real clocks, saved before anything may patch the time module
_perf = time.perf_counter
_real_time = time.time

EXIT_OK, EXIT_VIOLATION, EXIT_HARNESS = 0, 1, 2


class HarnessError(Exception):
    """The machinery (not evo) is at fault: never reported as a violation."""


# --------------------------------------------------------------------------
# seeds and decisions


def run_seed(prop: str, verif_seed: int, index: int, stream: str = "") -> int:
    h = hashlib.sha256(f"{prop}:{verif_seed}:{index}:{stream}".encode())
    return int.from_bytes(h.digest()[:8], "big")


def digest_of(obj) -> str:
    return hashlib.sha256(
        json.dumps(obj, sort_keys=True, default=_json_default).encode()
    ).hexdigest()[:16]


def _json_default(o):
    try:
        import numpy as np
        if isinstance(o, np.ndarray):
            return o.tolist()
        if isinstance(o, (np.floating, )):
            return float(o)
        if isinstance(o, (np.integer, )):
            return int(o)
        if isinstance(o, (np.bool_, )):
            return bool(o)
    except Exception:
        pass
    if isinstance(o, (set, frozenset)):
        return sorted(o)
    if isinstance(o, bytes):
        return o.decode("latin-1")
    return repr(o)


def jdump(obj, **kw) -> str:
    return json.dumps(obj, default=_json_default, **kw)


# --------------------------------------------------------------------------
# run results


class RunResult:
    """Outcome of one simulated run (must be picklable and small)."""
    __slots__ = ("index", "case", "violation", "digest", "nontrivial_key",
                 "stats", "steps", "sim_time", "aux")

    def __init__(self, index=-1, case=None):
        self.index = index
        self.case = case  # only kept for violations / samples
        self.violation = None  # {"class","sig","detail","step"}
        self.digest = ""  # digest of the full event log
        self.nontrivial_key = None  # digest if the run is non-trivial
        self.stats = collections.Counter()
        self.steps = 0
        self.sim_time = 0.0
        self.aux = {}


class Check:
    """
    Interface a property module implements.

    prop            property id
    level           evidence level string
    make_case(rng, tier, index) -> case (JSON-serialisable dict, explicit:
                    executing it needs no PRNG)
    execute(case)   -> RunResult  (deterministic function of case + /repo)
    shrink_candidates(case) -> iterable of smaller cases (generators welcome)
    fixed_cases(tier) -> list of cases always run first (schemas, sweeps)
    describe(case)  -> short JSON-able description for evidence samples
    """
    prop = "C00"
    level = "exploration"
    rule = ""
    assumptions: list = []
    components = {"real": [], "stub": []}
    required_probes: tuple = ()
    quick_budget_s = 60.0
    thorough_budget_s = 900.0
    # the quick tier explores at least this many seeded runs (scaled with an
    # explicitly given budget) even when the machine is busy: it keeps going
    # past its time budget, up to three times the budget, until they are done
    quick_min_runs = 0
    batch = 50

    def setup_worker(self):
        pass

    def make_case(self, rng, tier, index):
        raise NotImplementedError

    def execute(self, case) -> RunResult:
        raise NotImplementedError

    def fixed_cases(self, tier):
        return []

    def shrink_candidates(self, case):
        return []

    def describe(self, case):
        return case

    def extra_evidence(self, agg):
        return {}


# --------------------------------------------------------------------------
# known findings


def load_known_findings(prop):
    """returns (open: list of (signature, text), fixed: list of text)"""
    opened, fixed = [], []
    if not os.path.exists(KNOWN_FINDINGS):
        return opened, fixed
    for line in open(KNOWN_FINDINGS):
        line = line.strip()
        if not line or line.startswith("#"):
            continue
        if f"property={prop} " not in line + " ":
            continue
        if line.startswith("open:"):
            sig = ""
            for tok in line.split():
                if tok.startswith("signature="):
                    sig = tok[len("signature="):]
            opened.append((sig, line[len("open:"):].strip()))
        elif line.startswith("fixed:"):
            fixed.append(line[len("fixed:"):].strip())
    return opened, fixed


# --------------------------------------------------------------------------
# worker side

_WORKER_CHECK = None


_OPEN_SIGS = set()  # signatures of recorded (open) findings of this property


def _worker_init(check_factory_name):
    global _WORKER_CHECK
    import faulthandler
    faulthandler.enable()
    _WORKER_CHECK = load_check(check_factory_name)
    _OPEN_SIGS.update(s for s, _ in load_known_findings(
        _WORKER_CHECK.prop)[0] if s)
    _WORKER_CHECK.setup_worker()


def load_check(name) -> Check:
    import importlib
    mod = importlib.import_module(f"evosim.checks.{name}")
    return mod.CHECK


def _guarded_execute(check, case, index, timeout_s=None):
    import faulthandler
    # a hang must end the worker (and the check, with HARNESS-ERROR), but a
    # case that is merely slow on a loaded machine must not: checks that
    # render figures allow more wall-clock time per case
    if timeout_s is None:
        timeout_s = getattr(check, "case_timeout_s", 120)
    faulthandler.dump_traceback_later(timeout_s, exit=True)
    try:
        res = check.execute(case)
    finally:
        faulthandler.cancel_dump_traceback_later()
    res.index = index
    return res


def _worker_batch(args):
    """Execute runs [lo, hi) of the seeded stream; returns aggregate."""
    prop, verif_seed, tier, lo, hi, keep_samples = args
    check = _WORKER_CHECK
    agg = Aggregate()
    for i in range(lo, hi):
        rng = random.Random(run_seed(prop, verif_seed, i))
        try:
            case = check.make_case(rng, tier, i)
            res = _guarded_execute(check, case, i)
        except HarnessError as e:
            agg.harness_errors.append(f"run {i}: {e}")
            continue
        except Exception:
            agg.harness_errors.append(
                f"run {i}: " + traceback.format_exc(limit=8))
            continue
        agg.add(res, case, keep_samples)
    return agg


def _worker_digests(cases):
    """event-log digests of explicit cases, computed in a 'dirty' worker that
    has already executed many other runs (cross-run leakage shows up here)"""
    out = []
    for case in cases:
        try:
            out.append(_guarded_execute(_WORKER_CHECK, case, -1).digest)
        except Exception as e:  # noqa
            out.append("error:" + type(e).__name__)
    return out


def _worker_cases(args):
    """Execute explicit cases (fixed schemas, sweeps)."""
    cases, base_index, keep_samples = args
    check = _WORKER_CHECK
    agg = Aggregate()
    for k, case in enumerate(cases):
        try:
            res = _guarded_execute(check, case, base_index + k)
        except HarnessError as e:
            agg.harness_errors.append(f"fixed case {base_index + k}: {e}")
            continue
        except Exception:
            agg.harness_errors.append(f"fixed case {base_index + k}: " +
                                      traceback.format_exc(limit=8))
            continue
        agg.add(res, case, keep_samples)
    return agg


class Aggregate:
    def __init__(self):
        self.evaluations = 0
        self.stats = collections.Counter()
        self.digests = set()
        self.nontrivial = set()
        self.aux_sets = collections.defaultdict(set)
        self.steps = 0
        self.sim_time = 0.0
        self.violations = []  # (index, case, violation)
        self.known = []  # the same for recorded findings, one per signature
        self.samples = []
        self.harness_errors = []
        self.first_seed = None
        self.last_seed = None

    def add(self, res: RunResult, case, keep_samples):
        self.evaluations += 1
        self.stats.update(res.stats)
        self.digests.add(res.digest)
        if res.nontrivial_key is not None:
            self.nontrivial.add(res.nontrivial_key)
        for k, v in res.aux.items():
            if isinstance(v, (set, frozenset, list, tuple)):
                self.aux_sets[k].update(v)
            else:
                self.aux_sets[k].add(v)
        self.steps += res.steps
        self.sim_time += res.sim_time
        if res.violation is not None:
            if res.violation.get("sig") in _OPEN_SIGS:
                # a recorded finding: counted, one instance kept, and it never
                # takes the place of (or stops the search for) a new one
                self.stats["known_finding_runs"] += 1
                if not any(v["sig"] == res.violation["sig"]
                           for _, _, v in self.known):
                    self.known.append((res.index, case, res.violation))
            elif len(self.violations) < 20:
                self.violations.append((res.index, case, res.violation))
        if keep_samples and len(self.samples) < keep_samples:
            self.samples.append((res.index, case, res.nontrivial_key
                                 is not None))

    def merge(self, other: "Aggregate"):
        self.evaluations += other.evaluations
        self.stats.update(other.stats)
        self.digests |= other.digests
        self.nontrivial |= other.nontrivial
        for k, v in other.aux_sets.items():
            self.aux_sets[k] |= v
        self.steps += other.steps
        self.sim_time += other.sim_time
        self.violations.extend(other.violations)
        for item in other.known:
            if not any(v["sig"] == item[2]["sig"] for _, _, v in self.known):
                self.known.append(item)
        self.samples.extend(other.samples)
        self.harness_errors.extend(other.harness_errors)


# --------------------------------------------------------------------------
# minimisation


def minimise(check: Check, case, violation, max_execs=1500, log=None):
    """
    Greedy delta-debugging: repeatedly take the first smaller candidate that
    still produces a violation with the same signature.
    """
    sig = violation["sig"]
    best, best_v = case, violation
    execs = 0
    improved = True
    while improved and execs < max_execs:
        improved = False
        for cand in check.shrink_candidates(best):
            execs += 1
            if execs > max_execs:
                break
            try:
                res = check.execute(cand)
            except Exception:
                continue
            if res.violation is not None and res.violation["sig"] == sig:
                best, best_v = cand, res.violation
                improved = True
                break
    if log:
        log(f"minimised with {execs} executions")
    return best, best_v


# --------------------------------------------------------------------------
# evidence


def validate_evidence(ev: dict):
    schema_path = "/root/.vp/EVIDENCE.schema.json"
    try:
        import jsonschema  # noqa
        if os.path.exists(schema_path):
            jsonschema.validate(ev, json.load(open(schema_path)))
            return
    except ImportError:
        pass
    # in-house check of the required keys and minima
    for k in ("property_id", "tier", "seed", "level", "coverage", "wall_s"):
        if k not in ev:
            raise HarnessError(f"evidence lacks {k}")
    if ev["tier"] not in ("quick", "thorough"):
        raise HarnessError("evidence tier")
    if not isinstance(ev["seed"], int):
        raise HarnessError("evidence seed")
    cov = ev["coverage"]
    if ev["level"] in ("exploration", "fault_enumeration"):
        for k in ("evaluations", "distinct_nontrivial", "rule", "samples"):
            if k not in cov:
                raise HarnessError(f"evidence coverage lacks {k}")
        if not (isinstance(cov["evaluations"], int)
                and cov["evaluations"] >= 1):
            raise HarnessError("evidence evaluations < 1")
        if not (isinstance(cov["distinct_nontrivial"], int)
                and cov["distinct_nontrivial"] >= 2):
            raise HarnessError("evidence distinct_nontrivial < 2")
        if not (isinstance(cov["samples"], list) and cov["samples"]):
            raise HarnessError("evidence samples empty")


def write_evidence(check: Check, tier, verif_seed, agg: Aggregate, wall_s,
                   n_violations, known_hit, selftest, extra=None):
    if os.environ.get("EVO_VERIF_NO_EVIDENCE") == "1":
        return "(evidence not written: sensitivity run on a scratch tree)"
    os.makedirs(EVIDENCE_DIR, exist_ok=True)
    runs_per_hour = int(agg.evaluations / max(wall_s, 1e-9) * 3600)
    samples = []
    # prefer non-trivial samples
    ordered = sorted(agg.samples, key=lambda s: (not s[2], s[0]))
    for idx, case, nontrivial in ordered[:5]:
        samples.append({
            "run_index": idx,
            "nontrivial": nontrivial,
            "case": check.describe(case)
        })
    faults = {
        k[len("fault."):]: v
        for k, v in sorted(agg.stats.items()) if k.startswith("fault.")
    }
    probes = {
        k[len("probe."):]: v
        for k, v in sorted(agg.stats.items()) if k.startswith("probe.")
    }
    for p in check.required_probes:
        probes.setdefault(p, 0)
    other_stats = {
        k: v
        for k, v in sorted(agg.stats.items())
        if not k.startswith(("fault.", "probe."))
    }
    coverage = {
        "evaluations": agg.evaluations,
        "distinct_nontrivial": len(agg.nontrivial),
        "rule": check.rule,
        "samples": samples,
        "distinct_event_logs": len(agg.digests),
        "runs_per_hour": runs_per_hour,
        "sim_steps": agg.steps,
        "sim_time_s": round(agg.sim_time, 6),
        "faults_injected": faults,
        "probes": probes,
        "counters": other_stats,
        "components": check.components,
        "determinism_selftest": selftest,
        "known_findings_hit": known_hit,
        "seeds": {
            "VERIF_SEED": verif_seed,
            "first_run_seed": run_seed(check.prop, verif_seed, 0),
            "runs": agg.evaluations
        },
        "exhaustive": False,
    }
    for k, v in agg.aux_sets.items():
        coverage["distinct_" + k] = len(v)
    if extra:
        coverage.update(extra)
    coverage.update(check.extra_evidence(agg))
    ev = {
        "property_id": check.prop,
        "tier": tier,
        "seed": verif_seed,
        "level": check.level,
        "coverage": coverage,
        "assumptions": list(check.assumptions),
        "wall_s": round(wall_s, 3),
        "violations": n_violations,
    }
    ev = json.loads(jdump(ev))
    validate_evidence(ev)
    path = os.path.join(EVIDENCE_DIR, f"{check.prop}.json")
    tmp = path + ".tmp"
    with open(tmp, "w") as f:
        json.dump(ev, f, indent=1, sort_keys=True)
        f.write("\n")
    os.replace(tmp, path)
    return path


# --------------------------------------------------------------------------
# replay files


def write_replay(check: Check, case, violation, meta):
    d = os.path.join(REPLAY_DIR, check.prop)
    os.makedirs(d, exist_ok=True)
    body = {
        "property": check.prop,
        "case": case,
        "violation": violation,
        "meta": meta,
    }
    name = digest_of([case, violation["sig"]]) + ".json"
    path = os.path.join(d, name)
    with open(path, "w") as f:
        f.write(jdump(body, indent=1, sort_keys=True))
        f.write("\n")
    return path


def replay_file(check: Check, path, quiet=False):
    body = json.load(open(path))
    case = body["case"]
    res = check.execute(case)
    want = body.get("violation")
    if res.violation is None:
        if not quiet:
            print(f"REPLAY property={check.prop} result=no-violation "
                  f"digest={res.digest}")
        return EXIT_OK, res
    if not quiet:
        print(f"REPLAY property={check.prop} class={res.violation['class']} "
              f"sig={res.violation['sig']} digest={res.digest}")
        print("  detail: " + str(res.violation.get("detail"))[:2000])
        if want and want.get("sig") != res.violation["sig"]:
            print(f"  note: recorded signature was {want.get('sig')}")
        print(f"VIOLATION property={check.prop} replay={path}")
    return EXIT_VIOLATION, res


def fresh_interpreter_replay(check_name, path, env_extra=None):
    """replays in a new interpreter; returns (sig, digest) or (None, None)"""
    env = dict(os.environ)
    env["PYTHONHASHSEED"] = "1"
    env["EVO_VERIF_REEXEC"] = "1"
    if env_extra:
        env.update(env_extra)
    out = subprocess.run(
        [sys.executable,
         os.path.join(VERIF_ROOT, "bin", "check"), check_name, "--replay",
         path], capture_output=True, text=True, env=env, timeout=600)
    for line in out.stdout.splitlines():
        if line.startswith("REPLAY ") and "sig=" in line:
            toks = dict(t.split("=", 1) for t in line.split()[1:] if "=" in t)
            return toks.get("sig"), toks.get("digest")
    return None, None


# --------------------------------------------------------------------------
# determinism self-test


def determinism_selftest(check: Check, check_name, tier, verif_seed, n_seeds,
                         pool_submit=None):
    """
    Executes n_seeds generated cases twice in this process and once in a fresh
    interpreter under another PYTHONHASHSEED; the event-log digests must agree.
    """
    cases = []
    first = []
    for i in range(n_seeds):
        rng = random.Random(run_seed(check.prop, verif_seed, i, "selftest"))
        case = check.make_case(rng, tier, i)
        cases.append(case)
        first.append(check.execute(case).digest)
    second = [check.execute(c).digest for c in cases]
    mism = [i for i in range(n_seeds) if first[i] != second[i]]
    # fresh interpreter, other hash seed: digests of the same generated cases
    env = dict(os.environ)
    env["PYTHONHASHSEED"] = "12345"
    env["EVO_VERIF_REEXEC"] = "1"
    out = subprocess.run([
        sys.executable,
        os.path.join(VERIF_ROOT, "bin", "check"), check_name, "--digests",
        str(n_seeds), "--tier", tier, "--seed",
        str(verif_seed)
    ], capture_output=True, text=True, env=env, timeout=1800)
    third = None
    for line in out.stdout.splitlines():
        if line.startswith("DIGESTS "):
            third = line.split()[1].split(",")
    if third is None:
        raise HarnessError("determinism self-test: fresh interpreter gave no "
                           "digests: " + out.stdout[-500:] + out.stderr[-2000:])
    mism3 = [i for i in range(n_seeds) if first[i] != third[i]]
    agree = n_seeds - len(set(mism) | set(mism3))
    return {
        "seeds": n_seeds,
        "agree": agree,
        "executions_per_seed": 3,
        "mismatch_same_process": mism[:5],
        "mismatch_fresh_interpreter_other_hashseed": mism3[:5],
        "_cases": cases,
        "_digests": first,
    }


def digests_only(check: Check, tier, verif_seed, n_seeds):
    out = []
    for i in range(n_seeds):
        rng = random.Random(run_seed(check.prop, verif_seed, i, "selftest"))
        case = check.make_case(rng, tier, i)
        out.append(check.execute(case).digest)
    print("DIGESTS " + ",".join(out))


# --------------------------------------------------------------------------
# main driver


def drive(check_name, tier, verif_seed, budget_s=None, max_runs=None,
          workers=None, selftest_seeds=None):
    from concurrent.futures import ProcessPoolExecutor, wait, FIRST_COMPLETED
    import multiprocessing as mp
    t0 = _perf()
    check = load_check(check_name)
    check.setup_worker()
    if budget_s is None:
        budget_s = (check.quick_budget_s
                    if tier == "quick" else check.thorough_budget_s)
        if os.environ.get("VERIF_BUDGET_S"):
            budget_s = float(os.environ["VERIF_BUDGET_S"])
    if workers is None:
        workers = int(os.environ.get("VERIF_WORKERS", "0")) or min(
            16, os.cpu_count() or 1)
    print(f"# check {check.prop} tier={tier} VERIF_SEED={verif_seed} "
          f"budget={budget_s:.0f}s workers={workers} repo={REPO_ROOT}")
    sys.stdout.flush()
    opened, fixed = load_known_findings(check.prop)
    _OPEN_SIGS.update(sig for sig, _ in opened if sig)

    agg = Aggregate()
    # determinism self-test first (cheap, in the main process)
    if selftest_seeds is None:
        selftest_seeds = 16 if tier == "quick" else 128
        if tier != "quick" and budget_s < 0.9 * check.thorough_budget_s:
            # a thorough run with a reduced budget: the self-test is sized
            # for the full budget and would otherwise eat all of a short one
            # (a 210 s run of C17 started no seeded history at all)
            selftest_seeds = max(16, int(128 * budget_s /
                                         check.thorough_budget_s))
    selftest = {"seeds": 0, "agree": 0}
    if selftest_seeds:
        selftest = determinism_selftest(check, check_name, tier, verif_seed,
                                        selftest_seeds)
        if selftest["agree"] != selftest["seeds"]:
            selftest.pop("_cases", None)
            selftest.pop("_digests", None)
            print(f"HARNESS-ERROR property={check.prop} determinism self-test "
                  f"failed: {selftest}")
            return EXIT_HARNESS

    ctx = mp.get_context("fork")
    fixed_cases = check.fixed_cases(tier)
    pending = set()
    next_index = 0
    batch = check.batch
    deadline = t0 + budget_s
    min_runs = 0
    if tier == "quick" and max_runs is None:
        min_runs = int(check.quick_min_runs * budget_s / check.quick_budget_s)
        if os.environ.get("VERIF_MIN_RUNS"):
            min_runs = int(os.environ["VERIF_MIN_RUNS"])
    hard_deadline = t0 + 3 * budget_s
    extended = False
    with ProcessPoolExecutor(max_workers=workers, mp_context=ctx,
                             initializer=_worker_init,
                             initargs=(check_name, )) as pool:
        # fixed cases first
        fc_chunk = max(1, min(200, len(fixed_cases) // (workers * 4) + 1))
        for k in range(0, len(fixed_cases), fc_chunk):
            pending.add(
                pool.submit(_worker_cases,
                            (fixed_cases[k:k + fc_chunk], 10**9 + k, 1)))

        def submit_more():
            nonlocal next_index
            while len(pending) < workers * 2:
                if max_runs is not None and next_index >= max_runs:
                    return
                hi = next_index + batch
                if max_runs is not None:
                    hi = min(hi, max_runs)
                pending.add(
                    pool.submit(_worker_batch,
                                (check.prop, verif_seed, tier, next_index, hi,
                                 1 if next_index < batch * 8 else 0)))
                next_index = hi

        submit_more()
        dead_worker = None
        while pending:
            done, pending = wait(pending, timeout=5,
                                 return_when=FIRST_COMPLETED)
            for f in done:
                try:
                    agg.merge(f.result())
                except Exception as e:  # worker died
                    dead_worker = repr(e)
            if dead_worker:
                break
            if len(agg.violations) >= 5:
                continue
            if _perf() < deadline:
                submit_more()
            elif next_index < min_runs and _perf() < hard_deadline:
                extended = True
                submit_more()
        if dead_worker:
            for f in pending:
                f.cancel()
            print(f"HARNESS-ERROR property={check.prop} worker failure: "
                  f"{dead_worker}")
            return EXIT_HARNESS
        # 4th execution of the self-test cases: in the pool's workers, which
        # have by now executed many other runs (and at another worker count
        # than the in-process executions)
        if selftest.get("_cases"):
            cases, want = selftest.pop("_cases"), selftest.pop("_digests")
            per = max(1, len(cases) // workers + 1)
            futs = [(k, pool.submit(_worker_digests, cases[k:k + per]))
                    for k in range(0, len(cases), per)]
            dirty = []
            for k, f in futs:
                try:
                    got = f.result(timeout=900)
                except Exception as e:  # noqa
                    got = ["error:" + repr(e)] * per
                for j, d in enumerate(got):
                    if k + j < len(want) and d != want[k + j]:
                        dirty.append(k + j)
            selftest["executions_per_seed"] = 4
            selftest["mismatch_in_used_pool_worker"] = dirty[:5]
            if dirty:
                selftest["agree"] = selftest["agree"] - len(dirty)
                print(f"HARNESS-ERROR property={check.prop} determinism "
                      f"self-test failed in used pool workers (state leaks "
                      f"from one run into the next): seeds {dirty[:5]}")
                return EXIT_HARNESS

    if agg.harness_errors:
        for e in agg.harness_errors[:5]:
            print("HARNESS-ERROR " + e.replace("\n", "\n    "))
        print(f"HARNESS-ERROR property={check.prop} "
              f"{len(agg.harness_errors)} run(s) failed in the machinery")
        return EXIT_HARNESS

    # classify violations
    known_hit = []
    new_violations = []
    seen_sigs = set()
    for idx, case, v in sorted(agg.known + agg.violations,
                               key=lambda x: x[0]):
        match = [t for (s, t) in opened if s and s == v["sig"]]
        if match:
            if v["sig"] not in seen_sigs:
                known_hit.append(v["sig"])
                text = match[0]
                if text.startswith(f"property={check.prop} "):
                    text = text[len(f"property={check.prop} "):]
                print(f"KNOWN-FINDING: property={check.prop} {text}")
            seen_sigs.add(v["sig"])
            continue
        new_violations.append((idx, case, v))

    exit_code = EXIT_OK
    reported = 0
    done_sigs = set()
    for idx, case, v in new_violations:
        if v["sig"] in done_sigs:
            continue
        done_sigs.add(v["sig"])
        if reported >= 3:
            break
        mcase, mv = minimise(check, case, v)
        path = write_replay(
            check, mcase, mv, {
                "tier": tier,
                "verif_seed": verif_seed,
                "run_index": idx,
                "run_seed": run_seed(check.prop, verif_seed, idx),
                "unminimised_case_digest": digest_of(case),
            })
        sig, dg = fresh_interpreter_replay(check_name, path)
        if sig != mv["sig"]:
            print(f"HARNESS-ERROR property={check.prop} non-reproducible "
                  f"violation (in-process sig {mv['sig']}, fresh interpreter "
                  f"{sig}); replay={path}")
            return EXIT_HARNESS
        print(f"  violation class={mv['class']} sig={mv['sig']}")
        print("  detail: " + str(mv.get("detail"))[:1500])
        print(f"VIOLATION property={check.prop} replay={path}")
        reported += 1
        exit_code = EXIT_VIOLATION

    wall = _perf() - t0
    # probes that must not stay at zero (only meaningful for full budgets)
    zero_probes = [
        p for p in check.required_probes if agg.stats.get("probe." + p, 0) == 0
    ]
    path = write_evidence(check, tier, verif_seed, agg, wall,
                          len(new_violations), known_hit, selftest,
                          extra={"zero_probes": zero_probes,
                                 "budget_s": budget_s,
                                 "min_seeded_runs": min_runs,
                                 "seeded_runs_started": next_index,
                                 "ran_past_budget_for_min_runs": extended})
    print(f"# {check.prop}: {agg.evaluations} runs, "
          f"{len(agg.nontrivial)} distinct non-trivial, "
          f"{len(agg.digests)} distinct event logs, {agg.steps} sim steps, "
          f"{wall:.1f}s wall, evidence={path}")
    if zero_probes and exit_code == EXIT_OK and tier == "thorough":
        print(f"HARNESS-ERROR property={check.prop} probes stuck at zero: "
              f"{zero_probes}")
        return EXIT_HARNESS
    if exit_code == EXIT_OK:
        print(f"OK property={check.prop}")
    return exit_code
