"""
Engine E3 reference model: a trajectory as (R_i, p_i, t_i) in extended
precision with its own closed-form group operations.  No evo code in here.
"""
from __future__ import annotations

import numpy as np

LD = np.longdouble


def quat_to_rot(q):
    """unit quaternion (w,x,y,z) -> rotation matrix, closed form"""
    q = np.asarray(q, dtype=LD)
    q = q / np.sqrt(np.sum(q * q))
    w, x, y, z = q
    return np.array([
        [1 - 2 * (y * y + z * z), 2 * (x * y - z * w), 2 * (x * z + y * w)],
        [2 * (x * y + z * w), 1 - 2 * (x * x + z * z), 2 * (y * z - x * w)],
        [2 * (x * z - y * w), 2 * (y * z + x * w), 1 - 2 * (x * x + y * y)],
    ], dtype=LD)


def rot_to_quat(R):
    """rotation matrix -> unit quaternion (w,x,y,z), Shepperd's method"""
    R = np.asarray(R, dtype=LD)
    t = R[0, 0] + R[1, 1] + R[2, 2]
    if t > 0:
        s = np.sqrt(t + 1) * 2
        q = [s / 4, (R[2, 1] - R[1, 2]) / s, (R[0, 2] - R[2, 0]) / s,
             (R[1, 0] - R[0, 1]) / s]
    elif R[0, 0] > R[1, 1] and R[0, 0] > R[2, 2]:
        s = np.sqrt(1 + R[0, 0] - R[1, 1] - R[2, 2]) * 2
        q = [(R[2, 1] - R[1, 2]) / s, s / 4, (R[0, 1] + R[1, 0]) / s,
             (R[0, 2] + R[2, 0]) / s]
    elif R[1, 1] > R[2, 2]:
        s = np.sqrt(1 + R[1, 1] - R[0, 0] - R[2, 2]) * 2
        q = [(R[0, 2] - R[2, 0]) / s, (R[0, 1] + R[1, 0]) / s, s / 4,
             (R[1, 2] + R[2, 1]) / s]
    else:
        s = np.sqrt(1 + R[2, 2] - R[0, 0] - R[1, 1]) * 2
        q = [(R[1, 0] - R[0, 1]) / s, (R[0, 2] + R[2, 0]) / s,
             (R[1, 2] + R[2, 1]) / s, s / 4]
    q = np.array(q, dtype=LD)
    return q / np.sqrt(np.sum(q * q))


def is_rotation(R, tol=1e-9):
    R = np.asarray(R, dtype=LD)
    if R.shape != (3, 3) or not np.all(np.isfinite(R)):
        return False
    err = np.max(np.abs(R.T @ R - np.eye(3, dtype=LD)))
    det = (R[0, 0] * (R[1, 1] * R[2, 2] - R[1, 2] * R[2, 1]) - R[0, 1] *
           (R[1, 0] * R[2, 2] - R[1, 2] * R[2, 0]) + R[0, 2] *
           (R[1, 0] * R[2, 1] - R[1, 1] * R[2, 0]))
    return bool(err <= tol and det > 0)


class TrajModel:
    """the abstract state of one trajectory object"""
    __slots__ = ("R", "p", "t", "beta", "projected", "scale_acc")

    def __init__(self, R, p, t=None):
        self.R = np.array(R, dtype=LD).reshape(-1, 3, 3)
        self.p = np.array(p, dtype=LD).reshape(-1, 3)
        self.t = None if t is None else np.array(t, dtype=np.float64)
        self.beta = 1e-16  # conditioning budget (accumulated non-orthonormality)
        self.projected = False
        self.scale_acc = 1.0

    @property
    def n(self):
        return self.p.shape[0]

    def copy(self):
        m = TrajModel(self.R.copy(), self.p.copy(),
                      None if self.t is None else self.t.copy())
        m.beta = self.beta
        m.projected = self.projected
        m.scale_acc = self.scale_acc
        return m

    def subset(self, ids):
        ids = np.asarray(ids, dtype=int)
        m = TrajModel(self.R[ids], self.p[ids],
                      None if self.t is None else self.t[ids])
        m.beta = self.beta
        m.projected = self.projected
        m.scale_acc = self.scale_acc
        return m

    # -- documented geometric effects
    def left(self, Rt, tt):
        Rt = np.asarray(Rt, dtype=LD)
        tt = np.asarray(tt, dtype=LD)
        self.p = self.p @ Rt.T + tt
        self.R = np.einsum("ij,njk->nik", Rt, self.R)
        self.beta += 4e-16

    def right(self, Rt, tt):
        Rt = np.asarray(Rt, dtype=LD)
        tt = np.asarray(tt, dtype=LD)
        self.p = np.einsum("nij,j->ni", self.R, tt) + self.p
        self.R = np.einsum("nij,jk->nik", self.R, Rt)
        self.beta += 4e-16

    def right_propagate(self, Rt, tt):
        """every relative motion D_i becomes D_i*T, the first pose is kept"""
        Rt = np.asarray(Rt, dtype=LD)
        tt = np.asarray(tt, dtype=LD)
        n = self.n
        newR = [self.R[0]]
        newp = [self.p[0]]
        for i in range(n - 1):
            # D = P_i^-1 P_{i+1}  (closed-form inverse)
            Ri_T = self.R[i].T
            Rd = Ri_T @ self.R[i + 1]
            pd = Ri_T @ (self.p[i + 1] - self.p[i])
            # D*T
            Rdt = Rd @ Rt
            pdt = Rd @ tt + pd
            newp.append(newR[-1] @ pdt + newp[-1])
            newR.append(newR[-1] @ Rdt)
        self.R = np.array(newR, dtype=LD)
        self.p = np.array(newp, dtype=LD)
        self.beta = 2 * n * self.beta + n * 1e-16

    def scale(self, s):
        self.p = self.p * LD(s)
        self.scale_acc *= abs(float(s))
        self.beta += 2e-16

    def similarity(self, R, t, s):
        """positions -> s*R*p + t, orientations -> R*R_p"""
        R = np.asarray(R, dtype=LD)
        t = np.asarray(t, dtype=LD)
        self.p = (self.p * LD(s)) @ R.T + t
        self.R = np.einsum("ij,njk->nik", R, self.R)
        self.scale_acc *= abs(float(s))
        self.beta += 6e-16

    # -- derived quantities
    def seg_lengths(self):
        if self.n < 2:
            return np.zeros(0, dtype=LD)
        d = self.p[1:] - self.p[:-1]
        return np.sqrt(np.sum(d * d, axis=1))

    def path_length(self):
        return np.sum(self.seg_lengths())

    def distances(self):
        return np.concatenate(([LD(0)], np.cumsum(self.seg_lengths())))

    def max_norm(self):
        if self.n == 0:
            return 0.0
        return float(np.max(np.sqrt(np.sum(self.p * self.p, axis=1))))

    def stamps_strictly_increasing(self):
        return self.t is None or bool(np.all(np.diff(self.t) > 0))


def ref_umeyama(x, y, with_scale):
    """
    Independent least-squares similarity y ~ s*R*x + t (Umeyama 1991) for
    nx3 point arrays; returns (R, t, s, conditioning) where conditioning is
    the ratio of the smallest to the largest singular value of the covariance
    (the solution is only unique when that is well above rounding noise).
    """
    x = np.asarray(x, dtype=np.float64)
    y = np.asarray(y, dtype=np.float64)
    n = x.shape[0]
    mx, my = x.mean(axis=0), y.mean(axis=0)
    xc, yc = x - mx, y - my
    cov = yc.T @ xc / n
    U, d, Vt = np.linalg.svd(cov)
    S = np.eye(3)
    if np.linalg.det(U) * np.linalg.det(Vt) < 0:
        S[2, 2] = -1
    R = U @ S @ Vt
    var_x = (xc**2).sum() / n
    s = float(np.trace(np.diag(d) @ S) / var_x) if with_scale else 1.0
    t = my - s * (R @ mx)
    cond = float(d[2] / d[0]) if d[0] > 0 else 0.0
    return R, t, s, cond


def random_unit_quat(rng, mode="uniform"):
    """seeded quaternion; modes: uniform, near identity, near pi"""
    import math
    if mode == "identity":
        return [1.0, 0.0, 0.0, 0.0]
    if mode == "uniform":
        while True:
            q = [rng.gauss(0, 1) for _ in range(4)]
            n = math.sqrt(sum(x * x for x in q))
            if n > 1e-3:
                return [x / n for x in q]
    if mode == "half_turn":
        # exactly (or within 1e-9 of) 180 degrees: w == 0
        base = rng.choice([[0.0, 1.0, 0.0, 0.0], [0.0, 0.0, 1.0, 0.0],
                           [0.0, 0.0, 0.0, 1.0], None, "near"])
        if base is None:
            v = [rng.gauss(0, 1) for _ in range(3)]
            n = math.sqrt(sum(x * x for x in v)) or 1.0
            return [0.0] + [x / n for x in v]
        if base == "near":
            ang = math.pi - rng.choice([1e-9, 1e-8, 3e-7, 1e-12])
            s = math.sin(ang / 2)
            return [math.cos(ang / 2), 0.0, 0.0, s]
        return base
    if mode == "quarter":
        k = rng.randrange(3)
        h = math.sqrt(0.5)
        q = [h, 0.0, 0.0, 0.0]
        q[1 + k] = h * rng.choice([1.0, -1.0])
        return q
    ax = [rng.gauss(0, 1) for _ in range(3)]
    n = math.sqrt(sum(x * x for x in ax)) or 1.0
    ax = [x / n for x in ax]
    if mode == "small":
        ang = rng.uniform(-1e-3, 1e-3)
    elif mode == "pi":
        ang = math.pi - rng.uniform(0, 1e-3)
    elif mode == "planar":
        ax = [0.0, 0.0, 1.0]
        ang = rng.uniform(-math.pi, math.pi)
    else:
        ang = rng.uniform(-math.pi, math.pi)
    s = math.sin(ang / 2)
    return [math.cos(ang / 2), ax[0] * s, ax[1] * s, ax[2] * s]
