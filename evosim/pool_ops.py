"""
Engine E3: the operation alphabet (mutators, derivers, observers), the step
generator and the history runner.
"""
from __future__ import annotations

import copy
import io
import math
import os
import random

import numpy as np

from .core import HarnessError, digest_of
from .pool import (Machine, Entry, Violation, ViewUnreadable, Probe,
                   gen_traj_data, se3_from, subsequence_ids, selection_ids,
                   BETA_CAP, POS_RTOL)
from .refmodel import (LD, TrajModel, quat_to_rot, rot_to_quat, is_rotation,
                       random_unit_quat, ref_umeyama)

MUTATORS = ("transform", "scale", "reduce_to_ids", "downsample",
            "motion_filter", "time_range", "align", "align_origin", "project")
DERIVERS = ("deepcopy", "associate", "split_time", "split_dist", "split_speed",
            "merge", "df_roundtrip", "tum_roundtrip", "kitti_roundtrip",
            "rewrap", "shallow_copy")
OBSERVERS = ("read", "compute")

MAY_REFUSE = {
    "align": ("GeometryException", ),
    "project": ("TrajectoryException", ),
    "time_range": ("TrajectoryException", ),
    "associate": ("SyncException", ),
    "split_speed": ("TrajectoryException", ),
    "motion_filter": ("FilterException", ),
    "downsample": ("TrajectoryException", ),
    "compute": ("MetricsException", "FilterException", "GeometryException",
                "TrajectoryException", "SyncException", "ResultException",
                "LieAlgebraException"),
    "read": ("TrajectoryException", ),
    "merge": (),
}

MIXES = {
    # weights: mutator, deriver, read, compute
    "c08": (0.50, 0.10, 0.32, 0.08),
    "c16": (0.30, 0.30, 0.12, 0.28),
}


# --------------------------------------------------------------------------
# construction


def build_object(m: Machine, uid, spec):
    T = m.evo.trajectory
    pos, quat, ts = gen_traj_data(spec["data_seed"], spec["n"],
                                  spec.get("profile", {}))
    R = np.array([quat_to_rot(q) for q in quat])
    if spec["ctor"] in ("se3", "all", "se3_nd"):
        poses = []
        for i in range(spec["n"]):
            P = np.eye(4)
            P[:3, :3] = R[i].astype(np.float64)
            P[:3, 3] = pos[i]
            poses.append(P)
        Rm = np.array([P[:3, :3] for P in poses], dtype=LD)
        meta = copy.deepcopy(spec.get("meta"))
        if spec["ctor"] == "se3_nd":
            # the poses as ONE (N,4,4) float array instead of a list of 4x4s
            # (slices of it, e.g. in split parts, are views of one buffer)
            poses = np.array(poses, dtype=float)
            m.probe_hit("built_from_pose_ndarray")
        if spec["ctor"] == "all":
            # all three representations handed to the constructor
            # (consistent with each other): every cache exists from the start
            quat_c = np.array([np.array(rot_to_quat(r), dtype=float)
                               for r in Rm])
            if spec["stamped"]:
                obj = T.PoseTrajectory3D(pos.copy(), quat_c, ts.copy(),
                                         poses_se3=poses, meta=meta)
            else:
                obj = T.PosePath3D(pos.copy(), quat_c, poses, meta=meta)
            m.probe_hit("built_from_all_three")
        elif spec["stamped"]:
            obj = T.PoseTrajectory3D(poses_se3=poses, timestamps=ts.copy(),
                                     meta=meta)
            m.probe_hit("built_from_se3")
        else:
            obj = T.PosePath3D(poses_se3=poses, meta=meta)
            m.probe_hit("built_from_se3")
    else:
        Rm = R
        meta = copy.deepcopy(spec.get("meta"))
        pos_in, quat_in = pos.copy(), quat.copy()
        if spec.get("layout") == "F":
            # column-major arrays: what np.vstack((x, y, z)).T or
            # df[["x", "y", "z"]].to_numpy() give (same values, dtype, shape)
            pos_in = np.asfortranarray(pos_in)
            quat_in = np.asfortranarray(quat_in)
            m.probe_hit("built_from_column_major_arrays")
        if spec["stamped"]:
            obj = T.PoseTrajectory3D(pos_in, quat_in, ts.copy(), meta=meta)
        else:
            obj = T.PosePath3D(pos_in, quat_in, meta=meta)
        m.probe_hit("built_from_xyz_quat")
    model = TrajModel(Rm, pos, ts if spec["stamped"] else None)
    e = Entry(uid, obj, model, spec["stamped"], "ctor")
    m.entries[uid] = e
    return e


def add_entry(m, uid, obj, model, origin):
    T = m.evo.trajectory
    e = Entry(uid, obj, model, isinstance(obj, T.PoseTrajectory3D), origin)
    m.entries[uid] = e
    return e


def find_same_object(m, obj):
    for e in m.entries.values():
        if e.obj is obj:
            return e
    return None


# --------------------------------------------------------------------------
# step execution


def cache_state(obj):
    """which representations are materialised (white-box, for probes only)"""
    return (hasattr(obj, "_positions_xyz"), hasattr(obj, "_orientations_quat_wxyz"),
            hasattr(obj, "_poses_se3"))


def execute_step(m: Machine, step, prop_of):
    """
    Executes one step on the live objects and updates the models.
    Returns (receivers, new_entries, refused:bool).
    Raises Violation for an undocumented exception.
    """
    evo = m.evo
    T = evo.trajectory
    op = step["op"]
    e = m.resolve(step["obj"]) if "obj" in step else None
    if "obj" in step and e is None:
        return None  # object does not exist (shrunk history): skip
    # an object cropped to zero poses (legal outcome of an empty interval) is
    # terminal: evo defines its count and nothing else on it (DESIGN 4.4, 9.9)
    for key in ("obj", "ref", "other", "a", "b"):
        if step.get(key):
            x = m.resolve(step[key])
            if x is not None and x.model is not None and x.model.n == 0:
                return None
    for u in step.get("objs", ()):
        x = m.resolve(u)
        if x is not None and x.model is not None and x.model.n == 0:
            return None
    EvoExc = evo.EvoException
    receivers, new = [], []

    def refuse_ok(exc):
        name = type(exc).__name__
        allowed = MAY_REFUSE.get(op, ())
        if name in allowed or any(
                a in [c.__name__ for c in type(exc).__mro__] for a in allowed):
            m.probe_hit("refusal_" + op)
            return True
        return False

    try:
        if op == "transform":
            Tm, Rt, tt = se3_from(step["T"])
            mode = step["mode"]
            cs = cache_state(e.obj)
            if cs == (True, True, False):
                m.probe_hit("op_after_only_xyz_quat_cached")
            elif cs[2] and not cs[0]:
                m.probe_hit("op_after_only_se3_cached")
            if mode == "left":
                if step.get("propagate_flag"):
                    # "propagate: whether to propagate drift with RHS
                    # transformations": without right_mul the flag has no
                    # meaning (evo_traj --transform_left --propagate_transform
                    # passes it all the same)
                    e.obj.transform(Tm, right_mul=False, propagate=True)
                    m.probe_hit("transform_left_with_propagate_flag")
                else:
                    e.obj.transform(Tm)
                e.model.left(Rt, tt)
            elif mode == "right":
                # the flags are used for their truth value: evo_traj passes
                # the PATH of the --transform_right file as right_mul
                yes = {"str": "transform.json", "int": 1,
                       "np": np.bool_(True)}.get(step.get("flag_as"), True)
                if step.get("flag_as"):
                    m.probe_hit("transform_flag_truthy_non_bool")
                if step.get("positional"):
                    e.obj.transform(Tm, yes)
                else:
                    e.obj.transform(Tm, right_mul=yes)
                e.model.right(Rt, tt)
            else:
                yes = {"str": "transform.json", "int": 1,
                       "np": np.bool_(True)}.get(step.get("flag_as"), True)
                if step.get("positional"):
                    e.obj.transform(Tm, yes, True)
                else:
                    e.obj.transform(Tm, right_mul=yes, propagate=True)
                e.model.right_propagate(Rt, tt)
            m.probe_hit("transform_" + mode)
            receivers.append(e)
        elif op == "scale":
            e.obj.scale(step["s"])
            e.model.scale(step["s"])
            if step["s"] < 0:
                m.probe_hit("scale_by_negative_factor")
            receivers.append(e)
        elif op == "reduce_to_ids":
            ids = [i for i in step["ids"] if -e.model.n <= i < e.model.n]
            if not ids:
                return None
            kind = step.get("ids_kind") or (
                "ndarray" if step.get("ids_np") else "list")
            dt = step.get("ids_dtype")
            if dt is not None:
                info = np.iinfo(np.dtype(dt))
                if not all(info.min <= i <= info.max for i in ids):
                    dt = None  # these ids are not representable in it
            arg = {"ndarray": lambda: np.array(ids, dtype=dt or int),
                   "tuple": lambda: tuple(ids),
                   "list": lambda: list(ids)}[kind]()
            m.probe_hit("reduce_to_ids_" + kind)
            if kind == "ndarray" and dt is not None and (
                    np.dtype(dt).itemsize < 4):
                m.probe_hit("reduce_to_ids_narrow_integer_array")
            e.obj.reduce_to_ids(arg)
            e.model = e.model.subset(ids)
            receivers.append(e)
        elif op == "downsample":
            n_old = e.model.n
            e.obj.downsample(step["n"])
            receivers.append(e)
            step["_expect_n"] = min(n_old, step["n"])
            step["_subseq"] = True
        elif op == "motion_filter":
            e.obj.motion_filter(step["dist"], step["angle"], step["deg"])
            receivers.append(e)
            step["_subseq"] = True
            step["_keep_first"] = True
        elif op == "time_range":
            if not e.stamped or e.model.n == 0:
                return None
            t = e.model.t
            lo = None if step["lo"] is None else float(
                t[0] + step["lo"] * (t[-1] - t[0]))
            hi = None if step["hi"] is None else float(
                t[0] + step["hi"] * (t[-1] - t[0]))
            if "abs" in step:
                # absolute bounds: 0.0, or exactly the k-th stamp
                def resolve(v):
                    if isinstance(v, list):
                        return float(t[v[0] % len(t)])
                    return v
                lo, hi = resolve(step["abs"][0]), resolve(step["abs"][1])
                if lo is not None and hi is not None and lo > hi:
                    lo, hi = hi, lo
                m.probe_hit("time_range_absolute_bounds")
            step["_expect_ids"] = [
                i for i in range(len(t))
                if t[i] >= (t[0] if lo is None else lo) and t[i] <=
                (t[-1] if hi is None else hi)
            ]
            e.obj.reduce_to_time_range(lo, hi)
            receivers.append(e)
            step["_subseq"] = True
        elif op == "align":
            ref = m.resolve(step["ref"])
            if ref is None or ref is e:
                return None
            # independent least-squares solution over the poses the call asks
            # for (all of them, or the first n), from the models
            nn = step["n"]
            expect = None
            if ref.model.n == e.model.n and e.model.n >= 3 and (
                    nn == -1 or nn >= 3):
                k = e.model.n if nn == -1 else min(nn, e.model.n)
                with_s = step["scale"] or step["only_scale"]
                Rr, tr_, sr, cond = ref_umeyama(
                    e.model.p[:k].astype(float), ref.model.p[:k].astype(float),
                    with_s)
                if cond > 1e-6 and sr > 0:
                    pm = e.model.p.astype(float)
                    expect = (sr * pm if step["only_scale"] else
                              (sr * pm) @ Rr.T + tr_)
            if step.get("positional"):
                r_a, t_a, s = e.obj.align(ref.obj, step["scale"],
                                          step["only_scale"], step["n"])
            else:
                r_a, t_a, s = e.obj.align(ref.obj,
                                          correct_scale=step["scale"],
                                          correct_only_scale=step["only_scale"],
                                          n=step["n"])
            receivers.append(e)
            if expect is not None:
                got = np.array(copy.deepcopy(e.obj).positions_xyz)
                scale_ = max(1.0, float(np.max(np.abs(expect))))
                dev = float(np.max(np.abs(got - expect)))
                if dev > 1e-6 * scale_:
                    raise Violation(prop_of["receiver"],
                                    "align-not-least-squares-over-requested-"
                                    "poses", obj=e.uid, op=op, n=nn,
                                    max_abs_dev=dev)
                if not step["only_scale"]:
                    # optimality, measured where a large common offset of the
                    # coordinates (UTM, ECEF) does not hide it: the residual
                    # over the requested poses against the optimum's
                    refk = ref.model.p[:k].astype(float)
                    ext = float(np.sqrt(np.mean(np.sum(
                        (refk - refk.mean(axis=0))**2, axis=1))))
                    r_got = float(np.sqrt(np.mean(np.sum(
                        (got[:k] - refk)**2, axis=1))))
                    r_opt = float(np.sqrt(np.mean(np.sum(
                        (expect[:k] - refk)**2, axis=1))))
                    if r_got > r_opt * (1 + 1e-7) + 1e-9 * max(ext, 1e-3) + (
                            1e-13 * scale_):
                        raise Violation(
                            prop_of["receiver"],
                            "align-not-least-squares-over-requested-poses",
                            obj=e.uid, op=op, n=nn, residual=r_got,
                            optimum=r_opt, extent=ext)
                    m.probe_hit("align_residual_checked")
                m.probe_hit("align_checked_against_independent_umeyama")
            if not is_rotation(r_a, 1e-9):
                raise Violation(prop_of["receiver"], "align-returned-no-rotation",
                                obj=e.uid, op=op)
            with_scale = step["scale"] or step["only_scale"]
            if not with_scale and s != 1.0:
                raise Violation(prop_of["receiver"], "align-scale-without-request",
                                obj=e.uid, op=op, s=float(s))
            if not (s > 0 and math.isfinite(s)):
                raise Violation(prop_of["receiver"], "align-bad-scale",
                                obj=e.uid, op=op, s=float(s))
            if step["only_scale"]:
                e.model.scale(s)
            else:
                e.model.similarity(r_a, t_a, s)
            m.probe_hit("align_" + ("only_scale" if step["only_scale"] else
                                    "sim3" if step["scale"] else "se3"))
        elif op == "align_origin":
            ref = m.resolve(step["ref"])
            if ref is None or ref is e or ref.model.n == 0 or e.model.n == 0:
                return None
            # documented effect: first pose becomes the reference's first pose
            R0, p0 = e.model.R[0], e.model.p[0]
            Rr, pr = ref.model.R[0], ref.model.p[0]
            Rt = Rr @ R0.T
            tt = pr - Rt @ p0
            e.obj.align_origin(ref.obj)
            e.model.left(Rt, tt)
            receivers.append(e)
        elif op == "project":
            plane = {"xy": T.Plane.XY, "xz": T.Plane.XZ,
                     "yz": T.Plane.YZ}[step["plane"]]
            was = e.model.projected
            cs = cache_state(e.obj)
            e.obj.project(plane)
            # a second projection may be refused (one-shot flag) or performed;
            # the statement requires neither, so both are accepted
            receivers.append(e)
            step["_project"] = {"xy": 2, "xz": 1, "yz": 0}[step["plane"]]
            e.model.projected = True
            if cs[0]:
                m.probe_hit("project_with_cached_positions")
        # ------------------------------------------------------- derivers
        elif op == "deepcopy":
            c = copy.deepcopy(e.obj)
            new.append(add_entry(m, step["uid"] + ".0", c, e.model.copy(),
                                 "deepcopy"))
        elif op == "associate":
            b = m.resolve(step["other"])
            if b is None or b is e or not (e.stamped and b.stamped):
                return None
            from_a, from_b = evo.sync.associate_trajectories(
                e.obj, b.obj, max_diff=step["max_diff"],
                offset_2=step["offset"])
            for k, (o, parent) in enumerate(((from_a, e), (from_b, b))):
                if o is parent.obj:
                    raise Violation(prop_of["derived"],
                                    "associate-returned-argument",
                                    obj=parent.uid, op=op)
                ne = add_entry(m, f"{step['uid']}.{k}", o, None, "associate")
                ne.origin = ("subseq", parent.uid)
                new.append(ne)
        elif op in ("split_time", "split_dist", "split_speed"):
            if op != "split_dist" and not e.stamped:
                return None
            if op == "split_time":
                parts = e.obj.split_time_gaps(step["thr"])
            elif op == "split_dist":
                parts = e.obj.split_distance_gaps(step["thr"])
            else:
                parts = e.obj.split_speed_outliers(step["thr"])
            parts = list(parts)
            if len(parts) == 1 and parts[0] is e.obj:
                # "split parts ... are independent of it": a part that IS the
                # trajectory cannot be - whatever is done to the part is done
                # to the original (DESIGN 9.17; the design first accepted this
                # as an alias)
                raise Violation(prop_of["derived"],
                                "split-part-is-the-trajectory-itself",
                                obj=e.uid, op=op)
            else:
                total = 0
                for k, o in enumerate(parts):
                    same = find_same_object(m, o)
                    if same is not None:
                        raise Violation(prop_of["derived"],
                                        "split-part-is-existing-object",
                                        obj=same.uid, op=op)
                    ne = add_entry(m, f"{step['uid']}.{k}", o, None, "split")
                    ne.origin = ("part", e.uid, total)
                    total += int(o.num_poses)
                    new.append(ne)
                if total != e.model.n:
                    raise Violation(prop_of["derived"], "split-not-a-partition",
                                    obj=e.uid, op=op, parts_total=total,
                                    parent=e.model.n)
                m.probe_hit("split_made_parts")
        elif op == "merge":
            ents = [m.resolve(u) for u in step["objs"]]
            if any(x is None or not x.stamped or x.model.n == 0
                   for x in ents) or len(ents) < 1:
                return None
            allt = np.concatenate([x.model.t for x in ents])
            if len(np.unique(allt)) != len(allt):
                # equal stamps (e.g. two windows that share their boundary
                # stamp): the order inside the merged object is unspecified,
                # so it does not join the pool - but the call is made and the
                # arguments must come out untouched like after any other call
                evo.trajectory.merge(_merge_arg(ents, step))
                m.probe_hit("merge_with_shared_stamps")
                return [], [], False
            arg = _merge_arg(ents, step)
            order = [id(x) for x in arg]
            o = evo.trajectory.merge(arg)
            if [id(x) for x in arg] != order:
                # the collection is an argument object as well: what the
                # caller keeps in parallel (names, colours) relies on it
                raise Violation(prop_of["derived"], "argument-changed", op=op,
                                fn="merge (the caller's collection was "
                                "reordered or changed)",
                                container=step.get("container"))
            if any(o is x.obj for x in ents):
                raise Violation(prop_of["derived"], "merge-returned-argument",
                                op=op, container=step.get("container"),
                                n=len(ents))
            if step.get("container") == "dict_values":
                m.probe_hit("merge_of_dict_view")
            order = np.argsort(allt, kind="stable")
            R = np.concatenate([x.model.R for x in ents])[order]
            p = np.concatenate([x.model.p for x in ents])[order]
            mm = TrajModel(R, p, allt[order])
            mm.beta = max(x.model.beta for x in ents) + 4e-16
            new.append(add_entry(m, step["uid"] + ".0", o, mm, "merge"))
        elif op == "shallow_copy":
            # "copies" of a trajectory: copy.copy() as well as deepcopy()
            c = copy.copy(e.obj)
            new.append(add_entry(m, step["uid"] + ".0", c, e.model.copy(),
                                 "shallow_copy"))
            m.probe_hit("shallow_copy_made")
        elif op == "rewrap":
            # a second object built from the first one's pose list, the way
            # contrib/kitti_poses_and_timestamps_to_trajectory.py turns a path
            # into a trajectory: PoseTrajectory3D(poses_se3=path.poses_se3, ..)
            if e.model.n == 0:
                return None
            poses = e.obj.poses_se3
            mm = e.model.copy()
            if step.get("stamped"):
                ts = (np.array(e.model.t, dtype=float) if e.model.t is not None
                      else np.arange(e.model.n, dtype=float) * 0.1)
                o = T.PoseTrajectory3D(poses_se3=poses, timestamps=ts)
                mm.t = ts.copy()
            else:
                o = T.PosePath3D(poses_se3=poses)
                mm.t = None
            new.append(add_entry(m, step["uid"] + ".0", o, mm, "rewrap"))
            m.probe_hit("second_object_from_same_pose_list")
        elif op == "df_roundtrip":
            df = evo.pandas_bridge.trajectory_to_df(e.obj)
            df0 = df.copy(deep=True)
            o = evo.pandas_bridge.df_to_trajectory(
                df, as_type=None if e.stamped else T.PosePath3D)
            if not (df.equals(df0) and list(df.index) == list(df0.index)):
                raise Violation("C16", "dataframe-argument-changed",
                                obj=e.uid, op=op)
            mm = e.model.copy()
            new.append(add_entry(m, step["uid"] + ".0", o, mm, "df"))
        elif op == "tum_roundtrip":
            if not e.stamped or e.model.n == 0:
                return None
            buf = io.StringIO()
            evo.file_interface.write_tum_trajectory_file(buf, e.obj)
            buf.seek(0)
            o = evo.file_interface.read_tum_trajectory_file(buf)
            new.append(add_entry(m, step["uid"] + ".0", o, e.model.copy(),
                                 "tum"))
        elif op == "kitti_roundtrip":
            if e.model.n == 0:
                return None
            buf = io.StringIO()
            evo.file_interface.write_kitti_poses_file(buf, e.obj)
            buf.seek(0)
            o = evo.file_interface.read_kitti_poses_file(buf)
            mm = e.model.copy()
            mm.t = None
            new.append(add_entry(m, step["uid"] + ".0", o, mm, "kitti"))
        # ------------------------------------------------------ observers
        elif op == "read":
            view = step["view"]
            obj = e.obj
            if view in ("speeds", "timestamps") and not e.stamped:
                return None
            cs = cache_state(obj)
            if view == "get_infos":
                if e.model.n:
                    obj.get_infos()
            elif view == "get_statistics":
                obj.get_statistics()
            elif view == "check":
                obj.check()
            elif view == "str":
                if e.model.n:
                    str(obj)
            elif view == "euler":
                obj.get_orientations_euler(step.get("axes", "sxyz"))
            elif view == "eq":
                b = m.resolve(step["other"])
                if b is None:
                    return None
                obj == b.obj  # noqa
                obj != b.obj  # noqa
            else:
                getattr(obj, view)
            cs2 = cache_state(obj)
            if cs != cs2:
                m.probe_hit("read_materialised_cache")
        elif op == "compute":
            new.extend(do_compute(m, step) or ())
        else:
            raise HarnessError(f"unknown step op {op}")
    except Violation:
        raise
    except EvoExc as exc:
        if refuse_ok(exc):
            return [], [], True
        raise Violation(prop_of["receiver"], "undocumented-refusal",
                        obj=step.get("obj"), op=op, exc=type(exc).__name__,
                        msg=str(exc)[:200])
    except HarnessError:
        raise
    except Exception as exc:  # noqa
        import traceback
        tb = traceback.extract_tb(exc.__traceback__)
        where = [f"{fr.filename.rsplit('/', 1)[-1]}:{fr.lineno}:{fr.name}"
                 for fr in tb if "/evo/" in fr.filename][-2:]
        if not where:
            raise HarnessError("exception in the machinery: " +
                               "".join(traceback.format_exception(exc))[-1500:])
        raise Violation(prop_of["receiver"], "unexpected-exception",
                        obj=step.get("obj"), op=op, exc=type(exc).__name__,
                        msg=str(exc)[:200], where=where)
    return receivers, new, False


def do_compute(m: Machine, step):
    """pure computations / writers taking pool objects as arguments"""
    evo = m.evo
    what = step["what"]
    a = m.resolve(step["a"])
    b = m.resolve(step["b"]) if step.get("b") else None
    if a is None or a.model.n == 0:
        return
    M = evo.metrics
    rel = {
        "full": M.PoseRelation.full_transformation,
        "trans": M.PoseRelation.translation_part,
        "rot": M.PoseRelation.rotation_part,
        "angle_deg": M.PoseRelation.rotation_angle_deg,
        "angle_rad": M.PoseRelation.rotation_angle_rad,
        "point": M.PoseRelation.point_distance,
    }[step.get("rel", "trans")]
    if what == "ape":
        if b is None or b.model.n == 0:
            return
        met = M.APE(rel)
        met.process_data((a.obj, b.obj))
        _metric_followups(m, met, step)
        m.probe_hit("compute_ape")
    elif what == "rpe":
        if b is None or b.model.n == 0:
            return
        unit = {"f": M.Unit.frames, "m": M.Unit.meters, "d": M.Unit.degrees,
                "r": M.Unit.radians}[step.get("unit", "f")]
        met = M.RPE(rel, step.get("delta", 1), unit, 0.1,
                    step.get("all_pairs", False),
                    step.get("pairs_from_reference", False))
        met.process_data((a.obj, b.obj))
        _metric_followups(m, met, step)
        m.probe_hit("compute_rpe")
    elif what == "main_ape":
        if b is None or b.model.n == 0:
            return
        res = evo.main_ape.ape(a.obj, b.obj, rel,
                               ref_name=step.get("ref_name", "reference"),
                               est_name=step.get("est_name", "estimate"))
        m.results[step["uid"]] = [res, snapshot_result(res)]
        m.probe_hit("compute_main_ape")
    elif what == "main_rpe":
        if b is None or b.model.n == 0:
            return
        res = evo.main_rpe.rpe(a.obj, b.obj, rel, step.get("delta", 1),
                               M.Unit.frames, support_loop=True,
                               ref_name=step.get("ref_name", "reference"),
                               est_name=step.get("est_name", "estimate"))
        m.results[step["uid"]] = [res, snapshot_result(res)]
        m.probe_hit("compute_main_rpe")
    elif what == "id_pairs":
        unit = {"f": M.Unit.frames, "m": M.Unit.meters, "d": M.Unit.degrees,
                "r": M.Unit.radians}[step.get("unit", "f")]
        M.id_pairs_from_delta(a.obj.poses_se3, step.get("delta", 1), unit,
                              0.1, step.get("all_pairs", False))
    elif what == "filter_by_motion":
        evo.filters.filter_by_motion(a.obj.poses_se3, step.get("dist", 0.5),
                                     step.get("angle", 0.3))
    elif what == "matching_time_indices":
        if b is None or not (a.stamped and b.stamped) or b.model.n == 0:
            return
        evo.sync.matching_time_indices(a.obj.timestamps, b.obj.timestamps,
                                       step.get("max_diff", 0.01),
                                       step.get("offset", 0.0))
        m.probe_hit("compute_matching_time_indices")
    elif what == "umeyama":
        if b is None or b.model.n != a.model.n:
            return
        if step.get("contiguous"):
            # caller-owned C-contiguous float64 arrays (e.g. np.array([xs, ys,
            # zs])): they are arguments like any other
            x = np.array(a.obj.positions_xyz.T, order="C", dtype=float)
            y = np.array(b.obj.positions_xyz.T, order="C", dtype=float)
            x0, y0 = x.copy(), y.copy()
            try:
                evo.geometry.umeyama_alignment(x, y, step.get("scale", False))
            finally:
                if not (np.array_equal(x, x0) and np.array_equal(y, y0)):
                    raise Violation("C16", "array-argument-changed",
                                    op="compute", fn="umeyama_alignment")
            m.probe_hit("compute_umeyama_contiguous")
        else:
            evo.geometry.umeyama_alignment(a.obj.positions_xyz.T,
                                           b.obj.positions_xyz.T,
                                           step.get("scale", False))
    elif what == "lie":
        ps = a.obj.poses_se3
        L = evo.lie
        i = step.get("i", 0) % len(ps)
        j = step.get("j", 1) % len(ps)
        L.se3_inverse(ps[i])
        L.relative_se3(ps[i], ps[j])
        L.relative_so3(ps[i][:3, :3], ps[j][:3, :3])
        L.so3_log(ps[i][:3, :3])
        L.so3_log_angle(ps[j][:3, :3])
        L.is_se3(ps[i])
        L.sim3_inverse(ps[j])
        L.so3_from_se3(ps[i])
        # the remaining helpers, fed with live rows / blocks of the object
        pos = a.obj.positions_xyz
        L.hat(pos[i])
        L.vee(L.hat(pos[j]))
        L.so3_exp(L.so3_log(ps[i][:3, :3]))
        L.so3_log(ps[j][:3, :3], return_skew=True)
        L.so3_log_angle(ps[i][:3, :3], degrees=True)
        L.sim3_scale(ps[i])
        L.is_so3(ps[j][:3, :3])
        L.is_sim3(ps[i], 1.0)
        L.is_sim3(ps[j])
        L.se3(ps[i][:3, :3], pos[j])
        L.sim3(ps[j][:3, :3], pos[i], 2.0)
        L.sst_rotation_from_matrix(np.asarray(ps)[:, :3, :3])
        L.sst_rotation_from_matrix(ps[i][:3, :3])
        m.probe_hit("compute_lie")
    elif what == "mutator_args":
        # the matrix / reference handed to a mutator is an argument like any
        # other: applied to a throw-away copy of the object (a Sim(3) matrix
        # would leave the pool's own object outside the model's domain), the
        # caller's arrays must come back bit for bit
        c = copy.deepcopy(a.obj)
        Tm, _, _ = se3_from(step["T"])
        L = evo.lie
        for mat in (np.array(Tm), L.sim3(Tm[:3, :3].copy(), Tm[:3, 3].copy(),
                                        step.get("s", 2.0))):
            mat = np.ascontiguousarray(mat, dtype=float)
            keep = mat.copy()
            cc = copy.deepcopy(c)
            if step.get("read_first"):
                cc.poses_se3
            cc.transform(mat, right_mul=bool(step.get("right")),
                         propagate=bool(step.get("right")
                                        and step.get("propagate")))
            if mat.tobytes() != keep.tobytes():
                raise Violation("C16", "argument-changed", op="compute",
                                fn="transform (the caller's matrix)",
                                sim3=bool(abs(np.linalg.det(keep[:3, :3]) - 1)
                                          > 1e-9))
        m.probe_hit("compute_mutator_args")
    elif what == "helpers":
        # conversion helpers fed with the LIVE arrays / matrices of an object
        T = evo.trajectory
        tr = evo.transformations
        pos, quat = a.obj.positions_xyz, a.obj.orientations_quat_wxyz
        poses = a.obj.poses_se3
        T.xyz_quat_wxyz_to_se3_poses(pos, quat)
        T.se3_poses_to_xyz_quat_wxyz(poses)
        i = step.get("i", 0) % len(poses)
        j = step.get("j", 1) % len(poses)
        tr.quaternion_matrix(quat[i])
        tr.quaternion_from_matrix(poses[i])
        tr.euler_from_matrix(poses[j], "sxyz")
        tr.euler_from_quaternion(quat[j])
        tr.quaternion_multiply(quat[i], quat[j])
        tr.quaternion_inverse(quat[i])
        tr.quaternion_slerp(quat[i], quat[j], 0.3)
        # a caller-owned table of Euler angles, handed over as 0-d views
        # (what arr[i, k, ...], np.squeeze or a tensor's .numpy() give)
        E = np.array(a.obj.get_orientations_euler("sxyz"), dtype=float)
        E0 = E.copy()
        tr.quaternion_from_euler(E[i, 0, ...], E[i, 1, ...], E[i, 2, ...])
        tr.euler_matrix(E[j, 0, ...], E[j, 1, ...], E[j, 2, ...])
        tr.quaternion_about_axis(E[i, 2, ...], pos[j])
        tr.rotation_matrix(E[j, 0, ...], pos[i] + 1.0)
        if E.tobytes() != E0.tobytes():
            raise Violation("C16", "argument-changed", op="compute",
                            fn="transformations (Euler angles given as 0-d "
                            "arrays)", rows=[int(k) for k in np.nonzero(
                                np.any(E != E0, axis=1))[0][:4]])
        T.calc_angular_speed(poses[i], poses[j], 0.0, 1.0)
        T.calc_speed(pos[i], pos[j], 0.0, 1.0)
        tr.unit_vector(pos[i])
        tr.vector_norm(pos, axis=1)
        tr.is_same_transform(poses[i], poses[j])
        tr.translation_from_matrix(poses[i])
        tr.decompose_matrix(poses[j])
        tr.inverse_matrix(poses[i])
        tr.concatenate_matrices(poses[i], poses[j])
        try:
            tr.rotation_from_matrix(poses[i])
        except ValueError:
            pass  # "no unit eigenvector" for an identity rotation
        if b is not None and b.model.n == a.model.n and a.model.n >= 3:
            tr.affine_matrix_from_points(pos.T, b.obj.positions_xyz.T,
                                         shear=False, scale=False)
            tr.superimposition_matrix(pos.T, b.obj.positions_xyz.T)
        if a.stamped and a.model.n >= 2 and a.model.stamps_strictly_increasing():
            evo.pandas_bridge.trajectories_stats_to_df({"a": a.obj})
        m.probe_hit("compute_helpers")
    elif what == "geometry":
        pos = a.obj.positions_xyz
        evo.geometry.arc_len(pos)
        evo.geometry.accumulated_distances(pos)
    elif what == "filter_pairs":
        F = evo.filters
        ps = a.obj.poses_se3
        F.filter_pairs_by_index(ps, step.get("delta_i", 1),
                                step.get("all_pairs", False))
        if len(ps) >= 2:
            F.filter_pairs_by_path(ps, step.get("dist", 1.0),
                                   step.get("dist", 1.0) * 0.5,
                                   step.get("all_pairs", False))
            F.filter_pairs_by_angle(ps, step.get("angle", 0.5), 0.25, False,
                                    step.get("all_pairs", False))
    elif what == "write_tum":
        if not a.stamped:
            return
        evo.file_interface.write_tum_trajectory_file(io.StringIO(), a.obj)
    elif what == "write_kitti":
        evo.file_interface.write_kitti_poses_file(io.StringIO(), a.obj)
    elif what == "to_df":
        df = evo.pandas_bridge.trajectory_to_df(a.obj)
        if len(df) > 0:
            # the frame is the caller's: editing it in place (what pandas
            # offers for that) must not reach the trajectory - the pool's
            # bit-for-bit comparison after this step is the judge
            df.iloc[0, 0] = float(df.iloc[0, 0]) + 1.0
            df.loc[:, "z"] = 0.0
            if df.index.is_unique:
                df.update(df * 2.0)
            m.probe_hit("derived_dataframe_edited_in_place")
        if a.stamped and a.model.n >= 2 and a.model.stamps_strictly_increasing():
            evo.pandas_bridge.trajectory_stats_to_df(a.obj)
    elif what == "save_table":
        # writing a table leaves the DataFrame it is given unchanged
        import pickle
        import tempfile
        keys = [u for u in step.get("results", ()) if u in m.results]
        if keys:
            df = evo.pandas_bridge.result_to_df(m.results[keys[0]][0])
        else:
            df = evo.pandas_bridge.trajectory_to_df(a.obj)
        before = pickle.dumps(df)
        fmt = step.get("fmt", "csv")
        if not (df.index.is_unique and df.columns.is_unique):
            fmt = "csv"  # pandas' json writer wants unique labels
        with tempfile.TemporaryDirectory() as d:
            evo.pandas_bridge.save_df_as_table(
                df, os.path.join(d, "t.out"), fmt,
                bool(step.get("transpose")), False)
        if pickle.dumps(df) != before:
            raise Violation("C16", "argument-changed", op="compute",
                            fn="save_df_as_table (the caller's DataFrame)",
                            transpose=bool(step.get("transpose")))
        m.probe_hit("compute_save_table")
    elif what == "merge_results":
        rs = [m.results[u][0] for u in step.get("results", ())
              if u in m.results]
        if not rs:
            return
        order = [id(r) for r in rs]
        out = evo.result.merge_results(rs)
        if [id(r) for r in rs] != order:
            raise Violation("C16", "argument-changed", op="compute",
                            fn="merge_results (the caller's list was "
                            "reordered or changed)")
        derived = []
        if len(rs) > 1:
            if any(out is r for r in rs):
                raise Violation("C16", "merge-results-returned-input",
                                op="merge_results")
            m.results[step["uid"]] = [out, snapshot_result(out)]
            # the merged result carries (copies of) the first result's
            # trajectories: they are derived objects like any other and join
            # the pool, so that later operations on them are observed
            for k, (name, traj) in enumerate(sorted(out.trajectories.items())):
                src = rs[0].trajectories.get(name)
                parent = find_same_object(m, src) if src is not None else None
                if parent is None or len(m.entries) >= 7:
                    continue
                same = find_same_object(m, traj)
                if same is not None:
                    raise Violation("C16", "merged-result-aliases-input-"
                                    "trajectory", obj=same.uid,
                                    op="merge_results")
                derived.append(add_entry(m, f"{step['uid']}.{k}", traj,
                                         parent.model.copy(),
                                         ("result_traj", parent.uid)))
                m.probe_hit("merged_result_trajectory_in_pool")
        m.probe_hit("compute_merge_results")
        return derived
    elif what == "result_io":
        rs = [m.results[u][0] for u in step.get("results", ())
              if u in m.results]
        for r in rs[:1]:
            if any(t.num_poses == 0 for t in r.trajectories.values()):
                continue  # its (aliased) trajectory was cropped to nothing
            evo.pandas_bridge.result_to_df(r)
            evo.file_interface.save_res_file(io.BytesIO(), r)
            m.probe_hit("compute_result_io")
    elif what == "plot":
        do_plot(m, a, b, step)
    elif what == "plot_result":
        # the plotting helper behind `evo_ape/evo_rpe --plot`
        keys = [u for u in step.get("results", ()) if u in m.results]
        if not keys:
            return
        res = m.results[keys[0]][0]
        trajs = list(res.trajectories.values())
        if len(trajs) < 2 or any(t.num_poses < 2 for t in trajs):
            return
        # the trajectories of a Result are the very objects the metric was
        # given: a later reduction of one of them makes the Result unplottable
        # (lengths differ from each other / from the error array), which
        # plot_result rightly refuses
        n_err = len(res.np_arrays.get("error_array", ()))
        if trajs[0].num_poses != trajs[1].num_poses or (
                trajs[1].num_poses not in (n_err, n_err + 1)):
            return
        import argparse
        import matplotlib.pyplot as plt
        args = argparse.Namespace(
            plot_mode=step.get("mode", "xy"),
            plot_x_dimension=step.get("x_dimension", "index"),
            plot_colormap_min=None, plot_colormap_max=None,
            plot_colormap_max_percentile=step.get("percentile"),
            map_tile=None, ros_map_yaml=None, plot=False, save_plot=None,
            serialize_plot=None, no_warnings=True)
        S = evo.settings.SETTINGS
        saved = dict(S)
        try:
            S["plot_figsize"] = [2, 2]
            S["plot_trajectory_length_unit"] = step.get("length_unit", "m")
            S["plot_pose_correspondences"] = bool(step.get("markers"))
            evo.common_ape_rpe.plot_result(args, res, trajs[0], trajs[1])
            m.probe_hit("compute_plot_result")
        finally:
            S.clear()
            S.update(saved)
            plt.close("all")
    else:
        raise HarnessError(f"unknown computation {what}")


def _metric_followups(m, met, step):
    """everything one does with a processed metric besides reading .error"""
    evo = m.evo
    M = evo.metrics
    met.get_all_statistics()
    for st in M.StatisticsType:
        met.get_statistic(st)
    res = met.get_result(step.get("ref_name", "ref"),
                         step.get("est_name", "est"))
    snap = snapshot_result(res)
    evo.pandas_bridge.result_to_df(res, label=step.get("label") or None)
    if snapshot_result(res) != snap:
        raise Violation("C16", "result-argument-changed", op="compute",
                        fn="result_to_df")
    buf = io.BytesIO()
    evo.file_interface.save_res_file(buf, res)
    buf.seek(0)
    evo.file_interface.load_res_file(buf, load_trajectories=True)
    unit = step.get("change_unit")
    if unit:
        try:
            met.change_unit({"mm": M.Unit.millimeters, "km": M.Unit.kilometers,
                             "deg": M.Unit.degrees, "rad": M.Unit.radians,
                             "m": M.Unit.meters}[unit])
            met.get_all_statistics()
            met.get_result("ref", "est")
        except M.MetricsException:
            pass  # angle <-> length and unit-less metrics cannot convert
    m.probe_hit("compute_metric_followups")


def do_plot(m, a, b, step):
    evo = m.evo
    import matplotlib
    matplotlib.use("Agg")
    import matplotlib.pyplot as plt
    P = evo.plot
    fig = plt.figure(figsize=(2, 2))
    try:
        mode = {"xy": P.PlotMode.xy, "xyz": P.PlotMode.xyz,
                "xz": P.PlotMode.xz}[step.get("mode", "xy")]
        ax = P.prepare_axis(fig, mode)
        P.traj(ax, mode, a.obj, style=step.get("style", "-"),
               label=step.get("label", ""), alpha=0.5,
               plot_start_end_markers=bool(step.get("markers")))
        if step.get("many") and b is not None:
            P.trajectories(fig, {"a": a.obj, "b": b.obj}
                           if step["many"] == "dict" else [a.obj, b.obj],
                           mode, plot_start_end_markers=bool(
                               step.get("markers")))
        if step.get("axes"):
            P.draw_coordinate_axes(ax, a.obj, mode, 0.1)
        if a.stamped and step.get("xyz"):
            fig2 = plt.figure(figsize=(2, 2))
            try:
                axs = fig2.subplots(3)
                t_ref = None
                if step.get("start_timestamp") is not None and a.model.n:
                    t_ref = float(a.model.t[0]) + step["start_timestamp"]
                unit = {"m": evo.metrics.Unit.meters,
                        "km": evo.metrics.Unit.kilometers,
                        "mm": evo.metrics.Unit.millimeters}[
                            step.get("length_unit", "m")]
                P.traj_xyz(axs, a.obj, start_timestamp=t_ref,
                           length_unit=unit)
                P.traj_rpy(axs, a.obj, start_timestamp=t_ref)
                if a.model.n >= 2 and a.model.stamps_strictly_increasing():
                    P.speeds(fig2.add_subplot(4, 1, 4), a.obj,
                             start_timestamp=t_ref)
                m.probe_hit("compute_plot_optional_args" if t_ref else
                            "compute_plot_time_series")
            finally:
                plt.close(fig2)
        if step.get("error_array") and a.model.n >= 2:
            # error_array with the live time stamps / distances as x values
            # and caller-owned arrays as y values and statistics
            fig4 = plt.figure(figsize=(2, 2))
            try:
                err = np.linspace(0.5, 1.5, a.model.n)
                x = a.obj.timestamps if (a.stamped and step["error_array"]
                                         == "t") else a.obj.distances
                stats = {"mean": 1.0, "std": 0.25, "rmse": 1.1}
                err0, stats0 = err.copy(), dict(stats)
                P.error_array(fig4.gca(), err, x_array=x, statistics=stats,
                              cumulative=bool(step.get("cumulative")),
                              threshold=step.get("threshold"),
                              name="e", title="t", xlabel="x")
                if not np.array_equal(err, err0) or stats != stats0:
                    raise Violation("C16", "array-argument-changed",
                                    op="compute", fn="plot.error_array")
                pc = P.PlotCollection("c")
                pc.add_figure("e", fig4)
                pc.close()
                m.probe_hit("compute_plot_error_array")
            finally:
                plt.close(fig4)
        if step.get("colormap") and a.model.n >= 2:
            fig3 = plt.figure(figsize=(2, 2))
            try:
                ax3 = P.prepare_axis(fig3, mode)
                arr = np.linspace(0.0, 1.0, a.model.n)
                P.traj_colormap(ax3, a.obj, arr, mode, min_map=0.0,
                                max_map=1.0)
                if b is not None and b.model.n == a.model.n:
                    P.draw_correspondence_edges(ax3, a.obj, b.obj, mode)
            finally:
                plt.close(fig3)
        m.probe_hit("compute_plot")
    finally:
        plt.close(fig)


def snapshot_result(res):
    """bit-level snapshot of a Result (its trajectories are pool aliases)"""
    arrays = {k: np.array(v).tobytes() for k, v in res.np_arrays.items()}
    stats = {k: repr(v) for k, v in res.stats.items()}
    info = {k: repr(v) for k, v in res.info.items()}
    return digest_of([sorted(arrays.items()), sorted(stats.items()),
                      sorted(info.items()), sorted(res.trajectories)])


# --------------------------------------------------------------------------
# post-step bookkeeping and oracle


def after_step(m: Machine, step, outcome, prop_of, before_results):
    op = step["op"]
    receivers, new, refused = outcome
    rec_ids = {id(e) for e in receivers}
    new_ids = {id(e) for e in new}
    probes = {}
    for uid, e in list(m.entries.items()):
        try:
            probes[uid] = m.probe(e.obj)
        except ViewUnreadable as vu:
            mine = id(e) in rec_ids or (id(e) in new_ids and op == "deepcopy")
            raise Violation(prop_of["receiver"] if mine else "C16",
                            "view-unreadable", obj=uid, op=op, view=vu.view,
                            exc=type(vu.exc).__name__, msg=str(vu.exc)[:160])
    # 1. everything that was not the receiver is bit-for-bit unchanged (C16-a)
    for uid, e in m.entries.items():
        if id(e) in rec_ids or id(e) in new_ids:
            continue
        diff = e.probe.equal_bits(probes[uid])
        if diff is not None:
            role = "argument" if uid in _step_objects(step, m) else "bystander"
            raise Violation("C16", f"{role}-changed", obj=uid, op=op,
                            view=diff, origin=str(e.origin))
    if refused:
        for e in receivers:
            pass
    for uid, (res, snap) in m.results.items():
        if uid in before_results and snapshot_result(res) != snap:
            raise Violation("C16", "result-changed", obj=uid, op=op)
    # 2. models of subsequence-type results
    for e in receivers:
        p = probes[e.uid]
        if step.get("_subseq"):
            ids = subsequence_ids(e.probe, p)
            if ids is None:
                raise Violation(prop_of["receiver"], "not-a-subsequence",
                                obj=e.uid, op=op)
            if "_expect_ids" in step and ids != step["_expect_ids"]:
                # duplicates may make the greedy match ambiguous: compare rows
                exp = step["_expect_ids"]
                if len(exp) != len(ids) or not all(
                        np.array_equal(e.probe.pos[a], e.probe.pos[b])
                        and np.array_equal(e.probe.poses[a], e.probe.poses[b])
                        and (e.probe.ts is None
                             or e.probe.ts[a] == e.probe.ts[b])
                        for a, b in zip(ids, exp)):
                    raise Violation(prop_of["receiver"], "wrong-elements-kept",
                                    obj=e.uid, op=op, expected=exp[:12],
                                    actual=ids[:12])
                ids = exp
            if "_expect_n" in step and len(ids) != step["_expect_n"]:
                raise Violation(prop_of["receiver"], "wrong-count-kept",
                                obj=e.uid, op=op, expected=step["_expect_n"],
                                actual=len(ids))
            if step.get("_keep_first") and ids and ids[0] != 0:
                raise Violation(prop_of["receiver"], "first-pose-dropped",
                                obj=e.uid, op=op)
            e.model = e.model.subset(ids)
        if "_project" in step:
            nd = step["_project"]
            mm = e.model
            if mm.n:
                mm.p = mm.p.copy()
                mm.p[:, nd] = 0
                newR = p.poses[:, :3, :3].astype(LD)
                axis = np.zeros(3, dtype=LD)
                axis[nd] = 1
                for i in range(mm.n):
                    if not is_rotation(newR[i], 1e-9) or np.max(
                            np.abs(newR[i] @ axis - axis)) > 1e-9:
                        raise Violation(prop_of["receiver"],
                                        "projection-orientation-not-about-normal",
                                        obj=e.uid, op=op, index=i)
                mm.R = newR
    for e in new:
        p = probes[e.uid]
        if e.model is None:
            origin = e.origin
            parent = m.entries[origin[1]]
            if origin[0] == "subseq":
                ids = selection_ids(parent.probe, p)
                if ids is None:
                    raise Violation(prop_of["derived"],
                                    "derived-not-a-subsequence", obj=e.uid,
                                    op=op, parent=parent.uid)
            else:
                start = origin[2]
                ids = list(range(start, start + p.n))
                pp = parent.probe
                if not (np.array_equal(p.pos, pp.pos[ids])
                        and np.array_equal(p.poses, pp.poses[ids])
                        and (p.ts is None or pp.ts is None
                             or np.array_equal(p.ts, pp.ts[ids]))):
                    raise Violation(prop_of["derived"],
                                    "part-not-from-parent", obj=e.uid, op=op,
                                    parent=parent.uid)
            e.model = parent.model.subset(ids)
            if e.model.t is None and p.ts is not None:
                e.model.t = np.array(p.ts)
    # 3. every object agrees with its own model and is valid (C08 / C16-b)
    for uid, e in m.entries.items():
        p = probes[uid]
        if id(e) in rec_ids:
            prop = prop_of["receiver"]
        elif id(e) in new_ids:
            prop = prop_of["derived"] if op != "deepcopy" else prop_of[
                "receiver"]
        else:
            prop = "C16"
        m.check_entry(e, p, prop, op)
        if id(e) in rec_ids or id(e) in new_ids:
            m.check_validity(e, prop, op)
        e.probe = p
    for k in [k for k in step if k.startswith("_")]:
        del step[k]


def _step_objects(step, m):
    out = set()
    for k in ("obj", "ref", "other", "a", "b"):
        if step.get(k):
            out.add(m.alias.get(step[k], step[k]))
    for u in step.get("objs", ()):
        out.add(m.alias.get(u, u))
    return out


# --------------------------------------------------------------------------
# generation


def gen_object_spec(rng, small=True):
    r = rng.random()
    if r < 0.1:
        n = rng.choice([1, 2])
    elif r < 0.85 or small:
        n = rng.randint(3, 12)
    else:
        n = rng.randint(13, 64)
    profile = {
        "scale": rng.choice([0.1, 1.0, 1.0, 10.0, 1000.0]),
        "rot": rng.choice(["uniform", "uniform", "mixed", "mixed", "small",
                           "pi", "planar", "any", "half_turn", "identity"]),
        "stationary": rng.choice([0.0, 0.1, 0.3]),
        "jump": rng.choice([0.0, 0.05, 0.2]),
        "gap": rng.choice([0.0, 0.05, 0.2]),
        "t0": rng.choice([0.0, 1.6e9, 100.0]),
        "dt": rng.choice([0.1, 0.05, 1.0]),
    }
    if rng.random() < 0.25:
        profile["tzero"] = rng.choice(["first", "mid"])
    if rng.random() < 0.12:
        profile["flat"] = rng.choice([1, 2, 3])  # exactly planar positions
    if rng.random() < 0.2:
        profile["qround"] = rng.choice([6, 7, 7, 9])
    # (integer-typed time stamps are not generated: the unchanged tree's
    # own association - `stamps_2 += offset_2` in evo.core.sync - refuses
    # them, so they are outside the input domain; DESIGN 9.24)
    spec = {"ctor": rng.choice(["se3", "xyzquat", "se3", "xyzquat", "all",
                                "se3_nd"]),
            "stamped": rng.random() < 0.7, "n": n,
            "data_seed": rng.getrandbits(32), "profile": profile}
    if rng.random() < 0.25:
        spec["layout"] = "F"
    if rng.random() < 0.5:
        spec["meta"] = {"frame_id": rng.choice(["map", "odom"]),
                        "tags": [rng.randrange(9), [rng.randrange(9)]]}
    return spec


def gen_T(rng, scale):
    mode = rng.choice(["uniform", "small", "pi", "any", "identity",
                       "half_turn", "quarter"])
    q = random_unit_quat(rng, mode)
    t = [rng.gauss(0, scale) for _ in range(3)]
    if rng.random() < 0.15:
        t = [0.0, 0.0, 0.0]
    return [float(x) for x in q] + [float(x) for x in t]


def gen_step(m: Machine, rng, uid):
    mix = MIXES[m.mix]
    ents = list(m.entries.values())
    alive = [e for e in ents if e.model.n > 0]
    if not alive:
        return None
    r = rng.random()
    e = rng.choice(alive)
    n = e.model.n
    scale = max(0.1, min(1e3, e.model.max_norm() or 1.0))
    budget_ok = e.model.beta < BETA_CAP / 10
    frozen = not (1e-3 <= e.model.scale_acc <= 1e3)
    if r < mix[0] and not frozen:
        op = rng.choice(MUTATORS)
        if op == "transform":
            mode = rng.choice(["left", "right", "prop"])
            if mode == "prop":
                nb = 2 * n * e.model.beta + n * 1e-16
                if n > 24 or nb > BETA_CAP:
                    mode = rng.choice(["left", "right"])
            if not budget_ok and mode != "prop":
                return None
            return {"op": op, "uid": uid, "obj": e.uid, "mode": mode,
                    "T": gen_T(rng, scale), "positional": rng.random() < 0.3,
                    "propagate_flag": mode == "left" and rng.random() < 0.25,
                    "flag_as": rng.choice([None, None, "str", "int", "np"])}
        if op == "scale":
            s = rng.choice([0.5, 2.0, 0.1, 10.0, 1.0, 1.5, 0.999, 3.25])
            if rng.random() < 0.2:
                # a point reflection combined with the scaling: positions are
                # multiplied by s, lengths by |s| (seeded defect c08z)
                s = -s
            if not (1e-3 <= e.model.scale_acc * abs(s) <= 1e3):
                return None
            return {"op": op, "uid": uid, "obj": e.uid, "s": s}
        if op == "reduce_to_ids":
            k = rng.randint(1, n)
            ids = sorted(rng.sample(range(n), k))
            id_dtype = rng.choice([None, None, "int32", "uint8", "int8",
                                   "uint16", "int16", "uint64", "intp"])
            # any list of valid indices is a legal argument: permuted and
            # repeated ids (always for paths, sometimes for stamped objects,
            # whose time stamps then stop being ascending - evo's check()
            # must say so)
            if rng.random() < (0.35 if not e.stamped else 0.08):
                shape = rng.choice(["permute", "repeat", "swap", "reverse",
                                    "negative", "negative"])
                if shape == "negative":
                    # Python-style indices from the end: [0, 10, -1]
                    ids = [i - n if rng.random() < 0.4 else i for i in ids]
                    if all(i >= 0 for i in ids):
                        ids[-1] = ids[-1] - n
                if shape == "permute":
                    rng.shuffle(ids)
                elif shape == "repeat":
                    ids = sorted(ids + [rng.choice(ids)
                                        for _ in range(rng.randint(1, 3))])
                    if rng.random() < 0.5:
                        rng.shuffle(ids)
                elif shape == "swap" and len(ids) >= 3:
                    i = rng.randrange(1, len(ids) - 1)
                    ids[i], ids[i - 1] = ids[i - 1], ids[i]
                else:
                    ids = ids[::-1]
            return {"op": op, "uid": uid, "obj": e.uid, "ids": ids,
                    "ids_dtype": id_dtype,
                    "ids_kind": rng.choice(["list", "ndarray", "list",
                                            "ndarray", "tuple"])}
        if op == "downsample":
            return {"op": op, "uid": uid, "obj": e.uid,
                    "n": rng.choice([1, 2, 3, max(1, n // 2), n, n + 3, 0,
                                     n - 1 if n > 1 else 1])}
        if op == "motion_filter":
            if n < 2:
                return None
            return {"op": op, "uid": uid, "obj": e.uid,
                    "dist": rng.choice([0.0, 0.1, 1.0, 5.0]) * scale,
                    "angle": rng.choice([0.0, 0.1, 1.0, 10.0, 45.0]),
                    "deg": rng.random() < 0.5}
        if op == "time_range":
            if not e.stamped:
                return None
            lo = rng.choice([None, 0.0, 0.2, 0.5, -0.1])
            hi = rng.choice([None, 1.0, 0.8, 0.5, 1.1])
            if lo is not None and hi is not None and lo > hi:
                if rng.random() < 0.7:
                    lo, hi = hi, lo
            st = {"op": op, "uid": uid, "obj": e.uid, "lo": lo, "hi": hi}
            if rng.random() < 0.3:
                pick = lambda: rng.choice([0.0, None, [rng.randrange(64)],
                                           [rng.randrange(64)]])
                st["abs"] = [pick(), pick()]
            return st
        if op in ("align", "align_origin"):
            if not budget_ok:
                return None
            cands = [x for x in alive if x is not e]
            if op == "align":
                same = [x for x in cands if x.model.n == n]
                cands = same or cands
            if not cands:
                return None
            ref = rng.choice(cands)
            if op == "align_origin":
                return {"op": op, "uid": uid, "obj": e.uid, "ref": ref.uid}
            cs = rng.random() < 0.4
            only = rng.random() < 0.2
            nn = -1 if rng.random() < 0.7 else rng.choice(
                [1, 2, rng.randint(3, max(3, n)), rng.randint(3, max(3, n)),
                 n, n + 5])
            return {"op": op, "uid": uid, "obj": e.uid, "ref": ref.uid,
                    "scale": cs, "only_scale": only, "n": nn,
                    "positional": rng.random() < 0.3}
        if op == "project":
            return {"op": op, "uid": uid, "obj": e.uid,
                    "plane": rng.choice(["xy", "xz", "yz"])}
    r -= mix[0]
    if 0 <= r < mix[1] and len(ents) < 6:
        op = rng.choice(DERIVERS)
        if op == "associate":
            cands = [x for x in alive if x is not e and x.stamped]
            if not e.stamped or not cands:
                op = "deepcopy"
            else:
                b = rng.choice(cands)
                return {"op": op, "uid": uid, "obj": e.uid, "other": b.uid,
                        "max_diff": rng.choice([0.01, 0.06, 1.0, 1e9]),
                        "offset": rng.choice([0.0, 0.0, 0.03, -0.5])}
        if op in ("split_time", "split_speed") and not e.stamped:
            op = "split_dist"
        if op == "split_time":
            return {"op": op, "uid": uid, "obj": e.uid,
                    "thr": rng.choice([0.01, 0.15, 0.5, 2.0, 100.0])}
        if op == "split_dist":
            return {"op": op, "uid": uid, "obj": e.uid,
                    "thr": rng.choice([0.0, 0.3, 1.0, 5.0, 100.0]) * scale}
        if op == "split_speed":
            if not e.model.stamps_strictly_increasing():
                return None
            return {"op": op, "uid": uid, "obj": e.uid,
                    "thr": rng.choice([0.1, 2.0, 10.0, 1e3]) * scale}
        if op == "merge":
            st = [x for x in alive if x.stamped]
            if not st:
                return None
            k = rng.randint(1, min(3, len(st)))
            return {"op": op, "uid": uid,
                    "container": rng.choice(["list", "list", "tuple",
                                             "dict_values"]),
                    "objs": [x.uid for x in rng.sample(st, k)]}
        if op in ("tum_roundtrip", ) and not e.stamped:
            op = "kitti_roundtrip"
        if op == "rewrap":
            return {"op": op, "uid": uid, "obj": e.uid,
                    "stamped": rng.random() < 0.6}
        return {"op": op, "uid": uid, "obj": e.uid}
    r -= mix[1]
    if r < mix[2] or r < 0:
        view = rng.choice(["positions_xyz", "orientations_quat_wxyz",
                           "poses_se3", "distances", "path_length",
                           "num_poses", "timestamps", "speeds", "get_infos",
                           "get_statistics", "check", "str", "euler", "eq"])
        st = {"op": "read", "uid": uid, "obj": e.uid, "view": view}
        if view in ("speeds", "get_statistics") and (
                e.stamped and not e.model.stamps_strictly_increasing()):
            return None
        if view == "eq":
            st["other"] = rng.choice(alive).uid
        if view == "euler":
            st["axes"] = rng.choice(["sxyz", "rzyx", "szxz", "ryxy"])
        return st
    what = rng.choice(["ape", "rpe", "main_ape", "main_rpe", "id_pairs",
                       "filter_by_motion", "matching_time_indices", "umeyama",
                       "umeyama", "write_tum", "write_kitti", "to_df",
                       "merge_results", "result_io", "ape", "rpe", "lie",
                       "geometry", "filter_pairs", "helpers",
                       "mutator_args", "save_table"] +
                      (["plot"] if rng.random() < 0.15 else []) +
                      (["plot_result"] if rng.random() < 0.08 else []))
    st = {"op": "compute", "uid": uid, "what": what, "a": e.uid}
    same = [x for x in alive if x.model.n == n and x is not e]
    if what in ("ape", "rpe", "main_ape", "main_rpe", "umeyama"):
        if not same:
            return None
        st["b"] = rng.choice(same).uid
        st["rel"] = rng.choice(["full", "trans", "rot", "angle_deg",
                                "angle_rad", "point"])
        if what in ("rpe", "main_rpe"):
            st["delta"] = rng.choice([1, 1, 2, 3])
            st["unit"] = "f"
            if what == "rpe" and rng.random() < 0.4:
                st["unit"] = rng.choice(["m", "d", "r"])
                st["delta"] = rng.choice([0.5, 1.0, 5.0, 30.0]) * (
                    scale if st["unit"] == "m" else 1.0)
            st["all_pairs"] = rng.random() < 0.3
            st["pairs_from_reference"] = rng.random() < 0.3
        st["scale"] = rng.random() < 0.5
        st["contiguous"] = rng.random() < 0.5
        st["change_unit"] = rng.choice([None, None, "mm", "km", "deg", "rad",
                                        "m"])
        st["label"] = rng.choice(["", "", "x"])
        # labels as they occur in practice: file names, topics, directories
        st["est_name"] = rng.choice(["estimate", "est.tum", "run1/est.txt",
                                     "bags/run_01/", "/odom", "C:\\d\\e\\",
                                     "est 2", ""])
        st["ref_name"] = rng.choice(["reference", "gt/ref.txt", "/gt"])
    elif what == "save_table":
        st["fmt"] = rng.choice(["csv", "json"])
        st["transpose"] = rng.random() < 0.5
        st["results"] = sorted(m.results)[-2:]
    elif what == "mutator_args":
        st["T"] = gen_T(rng, scale)
        st["s"] = rng.choice([2.0, 0.5, 1.000001, 10.0])
        st["right"] = rng.random() < 0.4
        st["propagate"] = rng.random() < 0.3
        st["read_first"] = rng.random() < 0.5
    elif what in ("lie", "helpers"):
        st["i"], st["j"] = rng.randrange(64), rng.randrange(64)
        if same:
            st["b"] = rng.choice(same).uid
    elif what == "filter_pairs":
        st["delta_i"] = rng.choice([1, 2, 3])
        st["dist"] = rng.choice([0.5, 2.0]) * scale
        st["angle"] = rng.choice([0.2, 1.0])
        st["all_pairs"] = rng.random() < 0.3
    elif what == "matching_time_indices":
        cands = [x for x in alive if x.stamped and x is not e]
        if not e.stamped or not cands:
            return None
        st["b"] = rng.choice(cands).uid
        st["max_diff"] = rng.choice([0.01, 1.0])
        st["offset"] = rng.choice([0.0, 0.25, -3.0])
    elif what == "id_pairs":
        st["unit"] = rng.choice(["f", "m", "d", "r"])
        st["delta"] = rng.choice([1, 2]) if st["unit"] == "f" else rng.choice(
            [0.5, 1.0, 10.0]) * (scale if st["unit"] == "m" else 1.0)
        st["all_pairs"] = rng.random() < 0.3
    elif what == "filter_by_motion":
        if n < 2:
            return None
        st["dist"] = rng.choice([0.1, 1.0]) * scale
        st["angle"] = rng.choice([0.1, 1.0])
    elif what in ("merge_results", "result_io", "plot_result"):
        if not m.results:
            return None
        st["mode"] = rng.choice(["xy", "xz", "xyz"])
        st["x_dimension"] = rng.choice(["index", "seconds", "distances"])
        st["length_unit"] = rng.choice(["m", "mm", "km", "cm"])
        st["percentile"] = rng.choice([None, 90])
        st["markers"] = rng.random() < 0.3
        keys = sorted(m.results)
        st["results"] = rng.sample(keys, min(len(keys), rng.randint(1, 3)))
    elif what == "plot":
        st["mode"] = rng.choice(["xy", "xyz", "xz"])
        st["axes"] = rng.random() < 0.5
        st["xyz"] = rng.random() < 0.5
        st["colormap"] = rng.random() < 0.5
        st["markers"] = rng.random() < 0.5
        st["label"] = rng.choice(["", "est"])
        st["many"] = rng.choice([None, "dict", "list"])
        st["start_timestamp"] = rng.choice([None, 0.0, 1.5, -2.0, 100.0])
        st["error_array"] = rng.choice([None, "t", "d"])
        st["cumulative"] = rng.random() < 0.5
        st["threshold"] = rng.choice([None, 1.0])
        st["length_unit"] = rng.choice(["m", "m", "km", "mm"])
        if same:
            st["b"] = rng.choice(same).uid
        elif len(alive) > 1:
            st["b"] = rng.choice([x for x in alive if x is not e]).uid
    return st


def _merge_arg(ents, step):
    """the collection handed to trajectory.merge: evo_traj --merge passes the
    values() view of its name -> trajectory dict"""
    objs = [x.obj for x in ents]
    c = step.get("container", "list")
    if c == "tuple":
        return tuple(objs)
    if c == "dict_values":
        return {f"traj_{i}": o for i, o in enumerate(objs)}.values()
    return objs


# --------------------------------------------------------------------------
# running a history


def run_history(evo, case, prop_focus):
    """
    -> (violation | None, realised_steps, machine)
    prop_focus: "C08" or "C16" (which property's mix is used; violations of
    both are returned, the check decides what it reports)
    """
    m = Machine(evo, case.get("mix", "c08"))
    prop_of = {"receiver": "C08", "derived": "C16"}
    steps_out = []
    violation = None
    try:
        for k, spec in enumerate(case["objects"]):
            e = build_object(m, f"o{k}", spec)
        for e in m.entries.values():
            e.probe = m.probe(e.obj)
            m.check_entry(e, e.probe, "C08", "construct")
            m.check_validity(e, "C08", "construct")
        if case.get("steps") is not None:
            plan = list(case["steps"])
            gen = None
        else:
            plan = None
            gen = random.Random(case["step_seed"])
        i = 0
        nsteps = len(plan) if plan is not None else case["nsteps"]
        attempts = 0
        while i < nsteps:
            if plan is not None:
                step = copy.deepcopy(plan[i])
            else:
                attempts += 1
                if attempts > nsteps * 6:
                    break
                step = gen_step(m, gen, f"s{len(steps_out)}")
                if step is None:
                    continue
            m.step_no = i
            before_results = set(m.results)
            # recorded before it runs: a violating step belongs to the replay
            steps_out.append({k: copy.deepcopy(v) for k, v in step.items()
                              if not k.startswith("_")})
            outcome = execute_step(m, step, prop_of)
            if outcome is None:
                steps_out.pop()
                if plan is not None:
                    i += 1
                continue
            m.count("op." + step["op"] +
                    ("." + step["what"] if step["op"] == "compute" else ""))
            after_step(m, step, outcome, prop_of, before_results)
            i += 1
    except Violation as v:
        violation = {
            "class": v.prop,
            "sig": f"{v.prop}:{v.detail.get('op', '?')}:{v.what}",
            "detail": dict(v.detail, what=v.what, step=len(steps_out)),
        }
    return violation, steps_out, m
