"""the evo modules engine E3 drives, imported once per worker"""
import os
import types


def load():
    home = os.environ.get("HOME", "")
    if not home.startswith("/dev/shm/") and not home.startswith("/tmp/"):
        raise RuntimeError("refusing to import evo with HOME=" + home)
    ns = types.SimpleNamespace()
    import evo
    from evo.core import trajectory, sync, metrics, filters, geometry, result
    from evo.core import lie_algebra, transformations
    ns.transformations = transformations
    from evo.tools import pandas_bridge, file_interface
    from evo import main_ape, main_rpe, common_ape_rpe
    from evo.tools import settings as evo_settings
    ns.common_ape_rpe = common_ape_rpe
    ns.settings = evo_settings
    ns.evo = evo
    ns.EvoException = evo.EvoException
    ns.trajectory, ns.sync, ns.metrics = trajectory, sync, metrics
    ns.filters, ns.geometry, ns.result = filters, geometry, result
    ns.lie = lie_algebra
    ns.pandas_bridge, ns.file_interface = pandas_bridge, file_interface
    ns.main_ape, ns.main_rpe = main_ape, main_rpe
    from evo.tools import plot
    ns.plot = plot
    repo = os.environ.get("EVO_VERIF_REPO", "/repo")
    if not os.path.abspath(evo.__file__).startswith(os.path.abspath(repo) + "/"):
        raise RuntimeError(f"evo imported from {evo.__file__}, expected {repo}")
    return ns
