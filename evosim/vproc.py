"""
Engine E1, part 2: virtual processes, the seeded scheduler, fault injection,
the simulated clock and the loader that runs evo's real module bodies once per
virtual process.

One real thread per lane; exactly one thread is runnable at any time
(baton passing through threading.Event), so the OS never decides anything.
A lane is a sequence of commands, each command is one evo *process*: a fresh
private table of evo* modules, a new virtual pid, the real import-time code of
evo/tools/settings.py executed again.
"""
from __future__ import annotations

import builtins
import gc
import hashlib
import importlib.machinery
import io
import logging
import os
import random
import sys
import threading
import time
import types

from . import simfs
from .simfs import SEAM, SimCrash, SimFS, SimUnsupported
from .core import HarnessError, REPO_ROOT

PARKED, RUNNING, DONE = "parked", "running", "done"

_tl = threading.local()

_real_time = time.time
_real_sleep = time.sleep
_real_getpid = os.getpid
_real_urandom = os.urandom
_real_input = builtins.input

ACTIVE = None  # the Sim of the run being executed in this interpreter
ENV_NAMES_SEEN = set()  # environment variables evo's own code asked for
_runs_since_gc = 0


def current_vp():
    return getattr(_tl, "vp", None)


# ---------------------------------------------------------------------------
# process-wide patches that dispatch on "is the calling thread a vproc?"

_patched = False


def install_patches():
    global _patched
    if _patched:
        return
    _patched = True
    simfs.install()
    os.environ["HOME"] = simfs.SIM_ROOT
    sys.dont_write_bytecode = True

    import tempfile
    import colorama

    def p_time():
        vp = current_vp()
        return ACTIVE.now + 1.7e9 if vp is not None else _real_time()

    def p_time_ns():
        return int(p_time() * 1e9)

    def p_sleep(dt):
        vp = current_vp()
        if vp is None:
            return _real_sleep(dt)
        ACTIVE.gate_sleep(vp, dt)

    time.time = p_time
    time.sleep = p_sleep
    _mono, _mono_ns = time.monotonic, time.monotonic_ns
    _rtns = time.time_ns
    time.time_ns = lambda: p_time_ns() if current_vp() is not None else _rtns()
    time.monotonic = lambda: (ACTIVE.now + 5e3
                              if current_vp() is not None else _mono())
    time.monotonic_ns = lambda: (int((ACTIVE.now + 5e3) * 1e9)
                                 if current_vp() is not None else _mono_ns())

    def p_getpid():
        vp = current_vp()
        return vp.pid if vp is not None else _real_getpid()

    os.getpid = p_getpid

    def p_urandom(n):
        vp = current_vp()
        if vp is None:
            return _real_urandom(n)
        return vp.det_bytes(n)

    os.urandom = p_urandom
    random._urandom = p_urandom

    def p_input(prompt=""):
        vp = current_vp()
        if vp is None:
            return _real_input(prompt)
        return vp.peer_input(prompt)

    builtins.input = p_input

    real_names = tempfile._get_candidate_names

    class _Names:
        def __iter__(self):
            return self

        def __next__(self):
            vp = current_vp()
            if vp is None:
                return next(real_names())
            return vp.det_bytes(6).hex()[:8]

    _names = _Names()
    tempfile._get_candidate_names = lambda: (_names if current_vp(
    ) is not None else real_names())

    colorama.init = lambda *a, **k: None
    colorama.deinit = lambda *a, **k: None
    colorama.reinit = lambda *a, **k: None

    def hook(unraisable):
        if isinstance(unraisable.exc_value, (SimCrash, )):
            return
        if ACTIVE is not None and current_vp() is not None:
            # exceptions swallowed in finalisers of a virtual process
            ACTIVE.unraisable.append(repr(unraisable.exc_value)[:200])
            return
        sys.__unraisablehook__(unraisable)

    sys.unraisablehook = hook
    threading.excepthook = lambda args: None
    sys.meta_path.insert(0, _EvoFinder())

    # which environment variables does evo's own code look at?  (discovered
    # names become part of the fault / configuration space of a run)
    real_getitem = os._Environ.__getitem__
    evo_dir = os.path.join(REPO_ROOT, "evo") + os.sep

    def spy_getitem(self, key):
        if current_vp() is not None and isinstance(key, str):
            # the caller proper: skip the wrappers of the standard library
            # (os.getenv, Mapping.get / __contains__), nothing else - what a
            # third-party library asks for on evo's behalf is its business
            f = sys._getframe(1)
            while f is not None and f.f_code.co_filename.endswith(
                    ("/os.py", "/_collections_abc.py", "<frozen os>",
                     "<frozen _collections_abc>")):
                f = f.f_back
            if f is not None and f.f_code.co_filename.startswith(evo_dir):
                ENV_NAMES_SEEN.add(key)
        return real_getitem(self, key)

    os._Environ.__getitem__ = spy_getitem


# ---------------------------------------------------------------------------
# loader for evo's module bodies (no import lock, see DESIGN 2.2)

_CODE = {}


def _locate(name):
    rel = name.replace(".", "/")
    base = os.path.join(REPO_ROOT, rel)
    if os.path.isdir(base):
        return os.path.join(base, "__init__.py"), True
    return base + ".py", False


def _code_for(name):
    path, is_pkg = _locate(name)
    st = os.stat(path)
    # the optimisation level of the calling virtual process' interpreter
    # (python -O / PYTHONOPTIMIZE strips assert statements)
    vp = current_vp()
    opt = getattr(vp, "optimize", 0) if vp is not None else 0
    key = (path, st.st_mtime_ns, st.st_size, opt)
    ent = _CODE.get((name, opt))
    if ent is None or ent[0] != key:
        with open(path, "rb") as f:
            src = f.read()
        ent = (key, compile(src, path, "exec", dont_inherit=True,
                            optimize=opt), is_pkg)
        _CODE[(name, opt)] = ent
    return path, ent[1], ent[2]


def load_module(name):
    """execute the working-tree source of evo module `name` for the current
    virtual process (its table is installed in sys.modules right now)"""
    mod = sys.modules.get(name)
    if mod is not None:
        return mod
    parent = name.rpartition(".")[0]
    if parent:
        load_module(parent)
    path, code, is_pkg = _code_for(name)
    mod = types.ModuleType(name)
    mod.__file__ = path
    spec = importlib.machinery.ModuleSpec(name, None, origin=path,
                                          is_package=is_pkg)
    spec.has_location = True
    mod.__spec__ = spec
    mod.__package__ = name if is_pkg else parent
    if is_pkg:
        mod.__path__ = [os.path.dirname(path)]
    sys.modules[name] = mod
    try:
        exec(code, mod.__dict__)
    except BaseException:
        if sys.modules.get(name) is mod:
            del sys.modules[name]
        raise
    if parent:
        setattr(sys.modules[parent], name.rpartition(".")[2], mod)
    return mod


class _EvoLoader:
    """import-system loader over the same compiled-source cache: every evo
    module a virtual process imports with a plain `import` statement gets its
    body executed from the working tree, once per virtual process"""
    def create_module(self, spec):
        return None

    def exec_module(self, module):
        _, code, _ = _code_for(module.__name__)
        exec(code, module.__dict__)


class _EvoFinder:
    def find_spec(self, name, path=None, target=None):
        if current_vp() is None or not (name == "evo"
                                        or name.startswith("evo.")):
            return None
        p, is_pkg = _locate(name)
        if not os.path.isfile(p):
            return None
        spec = importlib.machinery.ModuleSpec(name, _EvoLoader(), origin=p,
                                              is_package=is_pkg)
        spec.has_location = True
        if is_pkg:
            spec.submodule_search_locations = [os.path.dirname(p)]
        return spec


PRELOAD_START = ("evo", "evo.tools", "evo.tools._typing",
                 "evo.tools.settings_template", "evo.tools.settings")
PRELOAD_CONFIG = PRELOAD_START + ("evo.tools.user", "evo.tools.log",
                                  "evo.main_config")


def load_private(name):
    """run a module body outside any virtual process and without registering
    it (used by the harness for settings_template / parsers)"""
    path, code, is_pkg = _code_for(name)
    mod = types.ModuleType(name)
    mod.__file__ = path
    exec(code, mod.__dict__)
    return mod


# ---------------------------------------------------------------------------


class VProc:
    def __init__(self, sim, vid, program):
        self.sim = sim
        self.vid = vid
        self.program = program
        self.go = threading.Lock()  # held while the vproc is parked
        self.go.acquire()
        self.state = RUNNING
        self.fault = None
        self.pending = None
        self.wake = 0.0
        self.dead = False
        self.modules = {}
        self.argv = ["evo"]
        self.out = io.StringIO()
        self.err = io.StringIO()
        self.log_handlers = []
        self.pid = 1000 + vid * 100
        self._rnd = 0
        self.answers = []
        self.prompts = []
        self.results = []  # one dict per command
        self.cmd_faulted = False
        self.thread = None
        self.touched = set()
        self._nmods = -1
        self.block = None  # (fd, exclusive) while blocked in flock()
        self.locale = "utf-8"  # locale encoding of the current process
        self.env = {}  # environment variables of the current process
        self.optimize = 0  # python -O for the current process
        self._env_saved = {}

    def det_bytes(self, n):
        self._rnd += 1
        out = b""
        c = 0
        while len(out) < n:
            out += hashlib.sha256(
                f"{self.sim.seed}:{self.pid}:{self._rnd}:{c}".encode()).digest()
            c += 1
        return out[:n]

    def peer_input(self, prompt):
        self.prompts.append(prompt)
        self.sim.probe("prompt")
        if not self.answers:
            self.sim.probe("prompt_eof")
            raise EOFError("EOF when reading a line")
        a = self.answers.pop(0)
        if a == "<EOF>":
            self.sim.probe("prompt_eof")
            raise EOFError("EOF when reading a line")
        if a == "<INT>":
            self.sim.probe("prompt_interrupt")
            self.cmd_faulted = True
            raise KeyboardInterrupt()
        return a


class Gate:
    """what simfs calls for every operation on a sim path"""
    def __init__(self, sim):
        self.sim = sim

    def current_owner(self):
        vp = current_vp()
        return vp.vid if vp is not None else None

    def locale_encoding(self):
        """what open() without an encoding uses in the calling process"""
        vp = current_vp()
        return getattr(vp, "locale", None) or "utf-8"

    def block(self, fd, exclusive):
        """the calling virtual process blocks in flock(): it is not runnable
        until the lock can be granted; False outside a virtual process"""
        vp = current_vp()
        if vp is None:
            return False
        if vp.dead:
            raise SimCrash()
        sim = self.sim
        sim.counters["probe.blocked_on_lock"] += 1
        vp.block = (fd, exclusive)
        try:
            f = sim.yield_point(vp, "flock_wait", "", None)
        finally:
            vp.block = None
        if f is not None and f["kind"] == "kill":
            if not f.get("_teardown"):
                sim.count_fault("kill")
            vp.dead = True
            raise SimCrash()
        if f is not None and f["kind"] in ("int", "int_after"):
            sim.count_fault("interrupt")
            vp.cmd_faulted = True
            raise KeyboardInterrupt()
        return True

    def call(self, op, target, thunk, kind, nbytes):
        sim = self.sim
        vp = current_vp()
        if isinstance(target, int):
            o = SEAM.fs.fds.get(target)
            tpath = o.path if o is not None else "?"
            if o is not None and o.owner is not None and (
                    vp is None or o.owner != vp.vid):
                # a file object finalised by the garbage collector in a thread
                # other than its process: act for the owner, never yield
                owner = sim.vprocs[o.owner]
                if owner.dead:
                    return nbytes if kind == "cleanup" else None
                return thunk(None)
        else:
            tpath = target
        if vp is None:
            return thunk(None)
        if tpath.endswith("/evo.log"):
            return thunk(None)  # not part of any property, no yield points
        if vp.dead:
            if kind == "local":
                try:
                    return thunk(None)
                except OSError:
                    return None
            if kind == "cleanup":
                return nbytes
            raise SimCrash()
        if kind == "local":
            return thunk(None)
        if sim.guard_imports:
            f = sys._getframe(1)
            while f is not None:
                if f.f_code.co_name == "_find_and_load":
                    sim.harness_error = (
                        f"disk operation {op} {tpath} inside an import "
                        "(module must be added to the preload list)")
                    break
                f = f.f_back
        fault = sim.yield_point(vp, op, tpath, nbytes)
        limit = sim.chunk if op == "write" else None
        if fault is not None:
            k = fault["kind"]
            if k == "kill":
                if not fault.get("_teardown"):
                    sim.count_fault("kill")
                    sim.note_kill(vp, op, tpath)
                vp.dead = True
                raise SimCrash()
            if k == "kill_partial":
                sim.count_fault("kill_partial")
                n = max(1, int(nbytes * fault.get("frac", 0.5)))
                n = min(n, nbytes - 1) if nbytes > 1 else nbytes
                thunk(n)
                sim.after_effect(vp, op, tpath)
                vp.dead = True
                raise SimCrash()
            if k == "int":
                sim.count_fault("interrupt")
                vp.cmd_faulted = True
                raise KeyboardInterrupt()
            if k == "eio":
                sim.count_fault("io_error")
                vp.cmd_faulted = True
                code = fault.get("errno", 5)
                raise OSError(code, os.strerror(code), tpath)
            if k in ("short", "short_os"):
                sim.count_fault("short_write" if k == "short" else
                                "short_os_write")
                limit = max(1, int(nbytes * fault.get("frac", 0.5)))
                limit = min(limit, nbytes - 1)
                if k == "short_os":
                    vp.cmd_faulted = True  # this process met an I/O fault
        if limit is not None and nbytes is not None and limit < nbytes:
            sim.counters["partial_writes"] += 1
        vp.touched.add(tpath)
        res = thunk(limit)
        sim.after_effect(vp, op, tpath)
        if fault is not None and fault["kind"] == "int_after":
            sim.count_fault("interrupt_after")
            vp.cmd_faulted = True
            raise KeyboardInterrupt()
        return res


def fault_applicable(kind, op, nbytes):
    if kind in ("kill", "int", "int_after", "stall"):
        return True
    if kind in ("short", "kill_partial"):
        return op in ("write", "write_os") and nbytes is not None and (
            nbytes > 1) and (kind == "kill_partial" or op == "write")
    if kind == "short_os":
        # a direct os.write() that succeeds partially (disk or quota filling
        # up, file size limit): io-fault configuration only
        return op == "write_os" and nbytes is not None and nbytes > 1
    if kind == "eio":
        return op in ("open", "write", "write_os", "rename", "mkdir",
                      "ftruncate", "unlink", "fsync")
    return False


class Sim:
    """one simulated run on one SimFS"""
    def __init__(self, seed, fs=None, chunk=None, step_cap=20000,
                 guard_imports=True):
        self.seed = seed
        self.fs = fs if fs is not None else SimFS()
        self.chunk = chunk
        self.step_cap = step_cap
        self.guard_imports = guard_imports
        self.now = 0.0
        self.step = 0
        self.trace = []  # chosen vid per step (the realised schedule)
        self.oplog = []  # (step, vid, op, path, fault)
        self.vprocs = []
        self.back = threading.Lock()  # held while a vproc is running
        self.back.acquire()
        self.ctx = None
        self.faults = []
        self.fired = []
        self.counters = __import__("collections").Counter()
        self.violation = None
        self.harness_error = None
        self.hang = False
        self.unraisable = []
        self.invariant = None  # fn(sim, vp, op, path) -> violation | None
        self.sched = None
        self.sched_rng = None
        self.policy = ("random", )
        self.last = None
        self.match_counts = {}
        self.kills = []
        self._saved = None
        self.interleave_events = 0
        self._prio = None
        self.epoch_first = 0
        self.deadlock = False

    # -- bookkeeping
    def probe(self, name, n=1):
        self.counters["probe." + name] += n

    def count_fault(self, name):
        self.counters["fault." + name] += 1

    def note_kill(self, vp, op, path):
        self.kills.append((self.step, vp.vid, op, path))
        self.fs.release_process(vp.vid)

    def after_effect(self, vp, op, path):
        if self.invariant is not None and self.violation is None:
            v = self.invariant(self, vp, op, path)
            if v is not None:
                v.setdefault("step", self.step)
                self.violation = v

    # -- vproc side
    def yield_point(self, vp, op, path, nbytes=None):
        vp.pending = (op, path, nbytes)
        vp.state = PARKED
        self.back.release()
        vp.go.acquire()
        vp.state = RUNNING
        f = vp.fault
        vp.fault = None
        return f

    def gate_sleep(self, vp, dt):
        if vp.dead:
            raise SimCrash()
        vp.wake = self.now + max(0.0, float(dt))
        f = self.yield_point(vp, "sleep", "", None)
        if f is not None and f["kind"] == "kill":
            if not f.get("_teardown"):
                self.count_fault("kill")
            vp.dead = True
            raise SimCrash()
        if f is not None and f["kind"] in ("int", "int_after"):
            self.count_fault("interrupt")
            vp.cmd_faulted = True
            raise KeyboardInterrupt()

    # -- context switching
    @staticmethod
    def _env_apply(vp):
        vp._env_saved = {k: os.environ.get(k) for k in vp.env}
        os.environ.update(vp.env)

    @staticmethod
    def _env_restore(vp):
        for k, old in getattr(vp, "_env_saved", {}).items():
            if old is None:
                os.environ.pop(k, None)
            else:
                os.environ[k] = old
        vp._env_saved = {}

    def _save_ctx(self, vp):
        self._env_restore(vp)
        mods = sys.modules
        if len(mods) != vp._nmods:
            names = [k for k in mods if k == "evo" or k.startswith("evo.")]
        else:
            names = list(vp.modules)
        vp.modules = {k: mods.pop(k) for k in names if k in mods}
        vp.argv = sys.argv
        vp.log_handlers = self.evo_logger.handlers

    def _install_ctx(self, vp):
        sys.modules.update(vp.modules)
        vp._nmods = len(sys.modules)
        sys.argv = vp.argv
        sys.stdout = vp.out
        sys.stderr = vp.err
        self.evo_logger.handlers = vp.log_handlers
        self._env_apply(vp)

    def switch_to(self, vp):
        if self.ctx is vp:
            return
        if self.ctx is not None:
            self._save_ctx(self.ctx)
        self._install_ctx(vp)
        self.ctx = vp

    def fresh_process(self, vp):
        """called by the running vproc between two commands of its lane"""
        assert self.ctx is vp
        for k in [
                k for k in sys.modules if k == "evo" or k.startswith("evo.")
        ]:
            del sys.modules[k]
        vp.modules = {}
        vp._nmods = -1
        vp.pid += 1
        vp.out = io.StringIO()
        vp.err = io.StringIO()
        sys.stdout, sys.stderr = vp.out, vp.err
        self.evo_logger.handlers = []
        vp.cmd_faulted = False

    # -- scheduling
    def _choose(self, runnable):
        ids = [v.vid for v in runnable]
        idx = len(self.trace)
        if self.sched is not None:
            if idx < len(self.sched) and self.sched[idx] in ids:
                return runnable[ids.index(self.sched[idx])]
            if self.last in ids:
                return runnable[ids.index(self.last)]
            return runnable[0]
        if len(runnable) == 1:
            return runnable[0]
        rng = self.sched_rng
        pol = self.policy
        if pol[0] == "random":
            return runnable[rng.randrange(len(runnable))]
        if pol[0] == "sticky":
            if self.last in ids and rng.random() >= pol[1]:
                return runnable[ids.index(self.last)]
            return runnable[rng.randrange(len(runnable))]
        if pol[0] == "pct":
            # random priorities, d priority-change points
            if self._prio is None:
                order = list(range(64))
                rng.shuffle(order)
                self._prio = {i: order[i] + 100 for i in range(64)}
                self._chg = sorted(
                    rng.randrange(1, pol[2] + 1) for _ in range(pol[1]))
                self._low = 0
            while self._chg and self._chg[0] <= idx + 1:
                self._chg.pop(0)
                top = max(runnable, key=lambda v: self._prio[v.vid])
                self._low -= 1
                self._prio[top.vid] = self._low
            return max(runnable, key=lambda v: self._prio[v.vid])
        if pol[0] == "burst":
            # stay with the current vproc until its pending op touches a file
            # some other vproc has touched, then pick at random
            cur = None
            if self.last in ids:
                cur = runnable[ids.index(self.last)]
                path = cur.pending[1]
                shared = any(path in o.touched for o in self.vprocs
                             if o is not cur)
                if not shared or rng.random() >= pol[1]:
                    return cur
            return runnable[rng.randrange(len(runnable))]
        raise HarnessError(f"unknown policy {pol}")

    def _fault_for(self, vp):
        op, path, nbytes = vp.pending
        for f in self.faults:
            if f.get("_done"):
                continue
            hit = False
            if "step" in f:
                hit = f["step"] == self.step
            elif "when" in f:
                w = f["when"]
                if ("op" not in w or w["op"] == op) and (
                        "path" not in w
                        or path.endswith(w["path"])) and ("vid" not in w
                                                          or w["vid"]
                                                          == vp.vid):
                    key = id(f)
                    self.match_counts[key] = self.match_counts.get(key, 0) + 1
                    hit = self.match_counts[key] == w.get("n", 1)
            if hit:
                f["_done"] = True
                if fault_applicable(f["kind"], op, nbytes):
                    return f
                self.counters["fault_not_applicable"] += 1
        return None

    def configure(self, sched=None, policy=("random", ), sched_seed=0):
        self.sched = list(sched) if sched is not None else None
        self.policy = tuple(policy)
        self.sched_rng = random.Random(sched_seed)

    def run(self, programs, faults=()):
        """
        programs: list (one per lane) of lists of command dicts.
        Runs all lanes concurrently to completion under the scheduler
        (one 'epoch').  Returns the list of VProc objects of this epoch.
        """
        global ACTIVE, _runs_since_gc
        install_patches()
        # cyclic garbage is only collected between runs, in the harness
        # thread, so that finalisers never fire at a GC-chosen instant
        gc.disable()
        _runs_since_gc += 1
        if _runs_since_gc >= 64:
            _runs_since_gc = 0
            gc.collect()
        self.evo_logger = logging.getLogger("evo")
        self.faults = [dict(f) for f in faults]
        if self.sched_rng is None:
            self.sched_rng = random.Random(0)
        saved = (sys.argv, sys.stdout, sys.stderr, self.evo_logger.handlers,
                 SEAM.fs, SEAM.gate, ACTIVE, {
                     k: sys.modules.pop(k)
                     for k in list(sys.modules)
                     if k == "evo" or k.startswith("evo.")
                 })
        self.evo_logger.handlers = []
        SEAM.fs = self.fs
        SEAM.gate = Gate(self)
        ACTIVE = self
        first = len(self.vprocs)
        self.epoch_first = first
        try:
            for i, prog in enumerate(programs):
                vp = VProc(self, first + i, prog)
                vp._nmods = -1
                self.vprocs.append(vp)
                t = threading.Thread(target=self._lane_main, args=(vp, ),
                                     name=f"vproc-{vp.vid}", daemon=True)
                vp.thread = t
                t.start()
                self.back.acquire()
            self._loop()
        finally:
            # make sure no thread survives the run
            for vp in self.vprocs:
                if vp.state == PARKED:
                    vp.dead = True
                    self._release(vp, {"kind": "kill", "_teardown": True})
            for vp in self.vprocs:
                if vp.thread is not None:
                    vp.thread.join(10)
                    if vp.thread.is_alive():
                        self.harness_error = "vproc thread did not terminate"
            if self.ctx is not None:
                self._save_ctx(self.ctx)
                self.ctx = None
            (sys.argv, sys.stdout, sys.stderr, self.evo_logger.handlers,
             SEAM.fs, SEAM.gate, ACTIVE, mods) = saved
            sys.modules.update(mods)
        return self.vprocs[first:]

    def _release(self, vp, fault):
        self.switch_to(vp)
        vp.fault = fault
        vp.go.release()
        self.back.acquire()

    def _loop(self):
        while True:
            if self.violation is not None or self.harness_error is not None:
                return
            parked = [v for v in self.vprocs if v.state == PARKED]
            if not parked:
                return
            free = [v for v in parked if v.block is None or
                    self.fs.lock_grantable(v.block[0], v.block[1], v.vid)]
            runnable = [v for v in free if v.wake <= self.now]
            if not runnable:
                if not free:
                    # every live process waits for a lock another one holds
                    self.hang = True
                    self.deadlock = True
                    return
                self.now = min(v.wake for v in free)
                continue
            self.step += 1
            if self.step > self.step_cap:
                self.hang = True
                return
            vp = self._choose(runnable)
            if self.last is not None and self.last != vp.vid and (
                    self.last >= self.epoch_first):
                # a switch between two processes of the same epoch
                self.interleave_events += 1
            self.last = vp.vid
            self.trace.append(vp.vid)
            fault = self._fault_for(vp)
            op, path, nbytes = vp.pending
            if fault is not None and fault["kind"] == "stall":
                self.count_fault("stall")
                vp.wake = self.now + fault.get("dt", 0.05)
                self.oplog.append((self.step, vp.vid, op, path, "stall"))
                continue
            self.oplog.append((self.step, vp.vid, op, path,
                               fault["kind"] if fault else None))
            if fault is not None:
                self.fired.append((self.step, vp.vid, op, path,
                                   fault["kind"]))
            self._release(vp, fault)
            if vp.dead:
                self.fs.release_process(vp.vid)  # the kernel cleans up
            # simulated latency of the operation, a pure function of the step
            self.now += 1e-5 + ((self.step * 2654435761) & 0xffff) / 65536 * 1e-2

    # -- lane body (runs in the vproc's thread)
    def _lane_main(self, vp):
        _tl.vp = vp
        try:
            f = self.yield_point(vp, "spawn", "", None)
            if f is not None and f["kind"] == "kill":
                if not f.get("_teardown"):
                    self.count_fault("kill")
                vp.dead = True
                return
            for ci, cmd in enumerate(vp.program):
                if ci > 0:
                    self.fresh_process(vp)
                res = {"cmd": cmd.get("cmd"), "ok": False, "exc": None,
                       "exit": None, "faulted": False, "settings": None}
                vp.results.append(res)
                vp.answers = list(cmd.get("answers", ()))
                vp.locale = cmd.get("locale") or "utf-8"
                vp.optimize = 1 if cmd.get("python_O") else 0
                if vp.optimize:
                    self.probe("process_under_python_O")
                # environment variables of this process (an overlay on the
                # harness' environment, swapped at every context switch)
                self._env_restore(vp)
                vp.env = dict(cmd.get("env") or {})
                self._env_apply(vp)
                if vp.locale != "utf-8":
                    self.probe("process_with_other_locale_encoding")
                try:
                    run_command(self, vp, cmd, res)
                    res["ok"] = True
                except SimCrash:
                    res["exc"] = "SimCrash"
                    res["faulted"] = True
                    return
                except SystemExit as e:
                    res["exit"] = e.code
                    res["ok"] = e.code in (None, 0)
                    if not res["ok"]:
                        res["exc"] = f"SystemExit({e.code!r})"
                except SimUnsupported as e:
                    self.harness_error = f"unsupported seam: {e}"
                    res["exc"] = "SimUnsupported"
                    return
                except BaseException as e:  # noqa
                    import traceback
                    tb = traceback.extract_tb(e.__traceback__)
                    where = ""
                    for fr in reversed(tb):
                        if "/evo/" in fr.filename:
                            where = f" at {os.path.basename(fr.filename)}:{fr.name}"
                            break
                    res["exc"] = f"{type(e).__name__}: {str(e)[:160]}{where}"
                    res["exc_type"] = type(e).__name__
                finally:
                    res["faulted"] = res["faulted"] or vp.cmd_faulted
                    res["stdout_tail"] = vp.out.getvalue()[-300:]
                    res["prompts"] = list(vp.prompts)
                    vp.prompts = []
                    if vp.dead:
                        res["faulted"] = True
                    # process exit: descriptors closed, locks dropped
                    self.fs.release_process(vp.vid)
                if vp.dead:
                    return
        finally:
            vp.state = DONE
            _tl.vp = None
            self.back.release()


def run_command(sim, vp, cmd, res):
    """one evo process"""
    kind = cmd["cmd"]
    if kind == "env":
        # an environment step performed by 'the user' (not an evo process)
        cmd_env(sim, cmd)
        return
    rel = cmd.get("release")
    for name in PRELOAD_START:
        if rel and name == "evo.tools.settings":
            # this process is an OLDER release of evo: its version string and
            # the parameters that did not exist yet (the code is today's)
            sys.modules["evo"].__version__ = rel["version"]
            tmpl = sys.modules["evo.tools.settings_template"]
            for k in rel.get("without", ()):
                tmpl.DEFAULT_SETTINGS_DICT.pop(k, None)
                tmpl.DEFAULT_SETTINGS_DICT_DOC.pop(k, None)
            sim.probe("process_of_older_release")
        load_module(name)
    settings = sys.modules["evo.tools.settings"]
    if kind == "start":
        pass
    elif kind == "config":
        for name in PRELOAD_CONFIG:
            load_module(name)
        sys.argv = ["evo_config"] + list(cmd["argv"])
        vp.argv = sys.argv
        try:
            sys.modules["evo.main_config"].main()
        finally:
            res["settings"] = dict(settings.SETTINGS)
    else:
        handler = COMMANDS.get(kind)
        if handler is None:
            raise HarnessError(f"unknown command kind {kind}")
        try:
            handler(sim, vp, cmd, res)
        finally:
            res["settings"] = dict(settings.SETTINGS)
    res["settings"] = dict(settings.SETTINGS)


COMMANDS = {}


def cmd_env(sim, cmd):
    fs = sim.fs
    what = cmd["what"]
    if what == "write":
        fs.make_dirs(os.path.dirname(cmd["path"]))
        fs.write_bytes(cmd["path"], cmd["data"].encode())
    elif what == "unlink":
        if fs.lookup(cmd["path"]) is not None:
            del fs.ents[cmd["path"]]
    elif what == "rmtree":
        fs.remove_tree(cmd["path"])
    else:
        raise HarnessError(f"unknown env step {what}")
