"""
Generators shared by the C18 and C19 checks: initial home-directory states and
evo_config argument lists built from the documented grammar.
"""
from __future__ import annotations

import json

from . import vproc

HOME = "/vhome"
EVO_DIR = HOME + "/.evo"
SETTINGS_PATH = EVO_DIR + "/settings.json"
VERSION_PATH = EVO_DIR + "/assets_version"
WORK = HOME + "/work"
# other spellings of the package settings file a user may pass with -c
SETTINGS_ALIASES = [EVO_DIR + "/../.evo/settings.json",
                    EVO_DIR + "/./settings.json",
                    HOME + "//.evo/settings.json",
                    EVO_DIR + "/../.evo/./settings.json"]

_cache = {}


def defaults():
    """DEFAULT_SETTINGS_DICT and __version__ of the current working tree"""
    if "d" not in _cache:
        tmpl = vproc.load_private("evo.tools.settings_template")
        init = vproc.load_private("evo")
        _cache["d"] = dict(tmpl.DEFAULT_SETTINGS_DICT)
        _cache["v"] = init.__version__
    return _cache["d"], _cache["v"]


def dumps(d):
    return json.dumps(d, indent=4, sort_keys=True)


# values that are safe for the two settings evo_config itself consumes
SAFE_STR = {
    "pygments_style": ["monokai", "default", "vim", "native"],
    "console_logging_format": ["%(message)s", "[%(levelname)s] %(message)s",
                               "[%(levelname)s] %(message)s // %(name)s",
                               "{%(levelname)s, } %(message)s"],
    # consumed by evo.tools.plot at import time (matplotlib / seaborn validate
    # them): valid values only, like the two above
    "plot_backend": ["Agg", "agg", "pdf", "svg"],
    "plot_seaborn_style": ["darkgrid", "whitegrid", "dark", "white", "ticks"],
    "plot_fontfamily": ["sans-serif", "serif", "monospace"],
    "plot_legend_loc": ["best", "upper left", "lower right", "center"],
    "plot_texsystem": ["pdflatex", "xelatex", "lualatex"],
    "ros_map_viewport": ["update", "keep_unchanged", "zoom_to_map"],
    # the name of a pandas writer (df.to_<format>)
    "table_export_format": ["csv", "json"],
    # (read through .lower() by evo_res)
    "table_export_data": ["stats", "info", "error_array", "Error_Array",
                          "Stats", "INFO"],
}
RESERVED_KEY = "__locked__"
PLOT_IMPORT_KEYS = ("plot_backend", "plot_seaborn_enabled",
                    "plot_seaborn_style", "plot_fontfamily", "plot_fontscale",
                    "plot_seaborn_palette", "plot_legend_loc",
                    "plot_linewidth", "plot_usetex", "plot_texsystem")


def plot_import_safe(settings: dict) -> bool:
    """would importing evo.tools.plot with these settings be accepted by
    matplotlib / seaborn?  (the harness only imports it then)"""
    try:
        if settings["plot_backend"] not in SAFE_STR["plot_backend"]:
            return False
        for k in ("plot_seaborn_style", "plot_fontfamily", "plot_legend_loc",
                  "plot_texsystem", "ros_map_viewport"):
            if settings[k] not in SAFE_STR[k]:
                return False
        fs = settings["plot_fontscale"]
        if isinstance(fs, bool) or not isinstance(fs, (int, float)) or not (
                0.1 <= fs <= 100):
            return False
        lw = settings["plot_linewidth"]
        if isinstance(lw, bool) or not isinstance(lw, (int, float)) or lw < 0:
            return False
        if not isinstance(settings["plot_usetex"], bool) or not isinstance(
                settings["plot_seaborn_enabled"], bool):
            return False
        pal = settings["plot_seaborn_palette"]
        if isinstance(pal, str):
            return pal in PALETTES
        return isinstance(pal, list) and len(pal) > 0 and all(
            c in COLORS for c in pal)
    except KeyError:
        return False
GENERIC_STR = [
    "abc", "x_y", "Greys", "dotted", "png", "pdf", "best", "xz", "upper left",
    "jet", "m", "km", ":", "sans-serif", "0.5a", "tab10", "none_", "v2",
    # matplotlib line styles (two of them are shipped defaults) and other
    # values that start with a dash without being numbers or options
    "--", "-.", "-", "-x", "--foo",
    # a literal dollar sign / tilde (API tokens, quoted paths)
    "$HOME", "tok_${HOME}_1", "~user",
    # JSON punctuation inside a string
    "tk_9f2c,]A7", "a, } b", "x,}", "[1,]",
    # look like comments to a lenient reader
    "a // b", "pk.eyJ1Ijo//Zm9v", "/* x */ y", "# no comment",
    # words that are the beginning of a parameter name
    "global", "save", "eule", "plot_mode", "tf_cache_max", "cons", "pygm",
    # look like numbers (a legend location code, an all-digit token): stored
    # as numbers although the parameter's default is a string
    "2", "12345",
    # not ASCII (font names, labels)
    "\uff2d\uff33 \u30b4\u30b7\u30c3\u30af", "Schriftgr\u00f6\u00dfe"
]
NUM_TOKENS = [
    "0", "1", "2", "7", "10", "205", "0.5", "1.5", "2.25", "1e3", "1.5e-3",
    "0.0", "3.0", "100", "12.75", "1e+3", ".5", "2.", "+3", "1.4e+09", "5E-1",
    # integers that are not representable as a double (ids, tokens, stamps in
    # nanoseconds)
    "12345678901234567890", "9007199254740993", "1700000000123456789"
]
NEG_NUM_TOKENS = ["-1", "-0.5", "-3", "-2.5e1"]
STAT_NAMES = ["rmse", "median", "mean", "std", "min", "max"]
PALETTES = ["deep", "muted", "colorblind", "deep6", "pastel", "Set2",
            # seaborn palette specifications that contain commas / colons
            "ch:s=.25,rot=-.25", "blend:#7AB,#EDA", "light:b", "husl"]
# version strings another evo installation would have left behind (some sort
# lexicographically above the current one, one is an empty torn write)
OLD_VERSIONS = ["v1.12.0", "v1.30.2", "v1.31.0", "1.0", "", "v1.9.3",
                "v1.4.0", "v1.40.0", "v1.31.10", "v1.31.1\n", " ", "v2.0.0"]
COLORS = ["#ff0000", "#00ff00", "#0000ff", "red", "blue", "black"]


def gen_group(rng, key, default, allow_negative=False):
    """one `key [value...]` group for `evo_config set`"""
    if key == "plot_seaborn_palette":
        r = rng.random()
        if r < 0.5:
            return [key, rng.choice(PALETTES)]
        n = rng.randint(1, 4)
        return [key] + [rng.choice(COLORS) for _ in range(n)]
    if isinstance(default, bool):
        r = rng.random()
        if r < 0.4:
            return [key]
        return [
            key,
            rng.choice(["true", "false", "True", "False", "TRUE", "FALSE"])
        ]
    if isinstance(default, (int, float)):
        toks = NUM_TOKENS + (NEG_NUM_TOKENS if allow_negative else [])
        return [key, rng.choice(toks)]
    if isinstance(default, list):
        if key == "plot_statistics":
            r = rng.random()
            if r < 0.2:
                return [key, rng.choice(["none", "[]", "None"])]
            if r > 0.93:
                return [key, "rmse,mean"]  # ONE value that contains a comma
            n = rng.randint(1, 4)
            return [key] + rng.sample(STAT_NAMES, n)
        n = rng.randint(1, 3)
        return [key] + [rng.choice(NUM_TOKENS) for _ in range(n)]
    if key in SAFE_STR:
        return [key, rng.choice(SAFE_STR[key])]
    return [key, rng.choice(GENERIC_STR)]


def gen_set_argv(rng, keys, dflt, max_groups=4, allow_negative=False):
    n = rng.randint(1, max_groups)
    argv = []
    for _ in range(n):
        k = rng.choice(keys)
        argv += gen_group(rng, k, dflt[k], allow_negative)
    return argv


def gen_other_config(rng, dflt, extra_keys=True):
    """content of a config file to merge in"""
    keys = sorted(dflt)
    out = {}
    for k in rng.sample(keys, rng.randint(1, 5)):
        v = dflt[k]
        if isinstance(v, bool):
            out[k] = rng.random() < 0.5
        elif isinstance(v, (int, float)):
            out[k] = rng.choice([0, 1, 2.5, 42, 0.125])
        elif isinstance(v, list):
            out[k] = [rng.choice([1, 2, 3, 5, 8]) for _ in range(2)]
        elif k in SAFE_STR:
            out[k] = rng.choice(SAFE_STR[k])
        elif k == "plot_seaborn_palette":
            out[k] = rng.choice(PALETTES)
        else:
            out[k] = rng.choice(GENERIC_STR)
    if extra_keys and rng.random() < 0.4:
        out[rng.choice(["align", "plot_mode", "verbose", "my_extra"])] = (
            rng.choice([True, "xy", 3]))
    if extra_keys and rng.random() < 0.08:
        # a file made by dumping the loaded SETTINGS object (json.dump) also
        # carries the container's own lock flag
        out[RESERVED_KEY] = rng.choice([True, True, False])
    return out


def gen_initial_state(rng, dflt, version):
    """
    A home directory in a state evo itself produces.  Returned as
    {"state": name, "files": {path: text}, "dirs": [path]}.
    """
    r = rng.random()
    keys = sorted(dflt)
    if r < 0.30:
        return {"state": "empty", "files": {}, "dirs": []}
    if r < 0.36:
        return {"state": "dir_only", "files": {}, "dirs": [EVO_DIR]}
    if r < 0.39:
        # the user (or a crash of an older evo) removed only the marker
        s0 = dict(dflt)
        for k in rng.sample(keys, rng.randint(0, 3)):
            g = gen_group(rng, k, dflt[k])
            s0[k] = user_value(dflt[k], g[1:], k)
        return {"state": "settings_no_version",
                "files": {SETTINGS_PATH: dumps(s0)}, "dirs": [EVO_DIR]}
    if r < 0.42:
        return {
            "state": "dir_version",
            "files": {
                VERSION_PATH: version
            },
            "dirs": [EVO_DIR]
        }
    settings = dict(dflt)
    # some user-changed values
    for k in rng.sample(keys, rng.randint(0, 5)):
        g = gen_group(rng, k, dflt[k])
        settings[k] = user_value(dflt[k], g[1:], k)
    if r < 0.70:
        if rng.random() < 0.15:
            settings["global_logfile_enabled"] = True
        return {
            "state": "current",
            "files": {
                VERSION_PATH: version,
                SETTINGS_PATH: dumps(settings)
            },
            "dirs": [EVO_DIR]
        }
    # outdated install: older version string, some of today's keys missing,
    # a few obsolete keys
    for k in rng.sample(keys, rng.randint(1, 8)):
        if k in ("pygments_style", "console_logging_format",
                 "global_logfile_enabled"):
            continue
        del settings[k]
    if rng.random() < 0.5:
        settings["plot_old_obsolete_option"] = rng.choice([True, 3, "x"])
    old = rng.choice(OLD_VERSIONS)
    return {
        "state": "outdated",
        "files": {
            VERSION_PATH: old,
            SETTINGS_PATH: dumps(settings)
        },
        "dirs": [EVO_DIR]
    }


def user_value(default, tokens, key=None):
    """plain-Python value a user would have obtained by setting `tokens`
    (used only to fabricate plausible pre-existing settings)"""
    if isinstance(default, bool):
        if not tokens:
            return not default
        return tokens[-1].lower() == "true"
    if isinstance(default, (int, float)):
        f = float(tokens[0])
        return int(f) if f == int(f) else f
    if isinstance(default, list):
        if tokens and tokens[0].lower() in ("none", "[]"):
            return []
        out = []
        for t in tokens:
            try:
                f = float(t)
                out.append(int(f) if f == int(f) else f)
            except ValueError:
                out.append(t)
        return out
    if key == "plot_seaborn_palette" and len(tokens) > 1:
        return list(tokens)
    return tokens[0]


def apply_initial_state(fs, init):
    for d in init.get("dirs", ()):
        fs.make_dirs(d)
    for p, text in init.get("files", {}).items():
        fs.make_dirs(p.rsplit("/", 1)[0])
        fs.write_bytes(p, text.encode(), init.get("modes", {}).get(p, 0o644))
