"""
Engine E2: a real directory on tmpfs owned by the run, a PEP 578 audit hook
that sees (and can fail) every open / rename / remove / truncate any library in
the interpreter performs below that directory, and a scripted user behind
input().  One ordered event log interleaves disk events, prompts and the
"<path> exists, overwrite?" warnings.
"""
from __future__ import annotations

import builtins
import errno
import logging
import os
import shutil
import sys

from .core import HarnessError

_W_FLAGS = os.O_WRONLY | os.O_RDWR | os.O_APPEND | os.O_CREAT | os.O_TRUNC

CURRENT = None
_installed = False
_real_input = builtins.input


class UserPeer:
    """the interactive user: returns scripted answers, or 'hangs up'"""
    def __init__(self, sb):
        self.sb = sb

    def __call__(self, prompt=""):
        sb = self.sb
        if not sb.active:
            return _real_input(prompt)
        if sb.answers:
            a = sb.answers.pop(0)
        else:
            a = sb.default_answer
        sb.events.append(("prompt", str(prompt)[:80], a))
        if a == "<EOF>":
            raise EOFError("EOF when reading a line")
        if a == "<INT>":
            raise KeyboardInterrupt()
        return a


class _WarnTap(logging.Handler):
    def emit(self, record):
        sb = CURRENT
        if sb is None or not sb.active:
            return
        # any record of evo.tools.user whose first argument is a path inside
        # the sandbox announces the question that follows (today:
        # "<path> exists, overwrite?")
        try:
            args = record.args
            if isinstance(args, tuple) and args:
                rel = sb.rel(args[0])
                if rel is not None and rel != ".":
                    sb.events.append(("warn", rel))
        except Exception:  # noqa
            pass


def _hook(event, args):
    sb = CURRENT
    if sb is None or not sb.active:
        return
    n0 = len(sb.events)
    try:
        _hook_inner(sb, event, args)
    finally:
        if sb.late is not None and len(sb.events) > n0:
            sb.maybe_plant()


def _hook_inner(sb, event, args):
    if event == "open":
        path, mode, flags = args
        if isinstance(path, int) or path is None:
            return
        rel = sb.rel(path)
        if rel is None:
            return
        if flags is None:
            flags = 0
        write = bool(flags & _W_FLAGS) or (isinstance(mode, str) and any(
            c in mode for c in "wxa+"))
        sb.events.append(("open_w" if write else "open_r", rel))
        if write:
            sb.maybe_fail(rel)
    elif event == "os.rename":
        src, dst = sb.rel(args[0]), sb.rel(args[1])
        if src is not None or dst is not None:
            sb.events.append(("rename", src, dst))
            if dst is not None:
                sb.maybe_fail(dst)
    elif event in ("os.remove", "os.truncate", "os.rmdir", "os.chmod",
                   "os.mkdir", "os.utime"):
        rel = sb.rel(args[0])
        if rel is not None:
            sb.events.append((event[3:], rel))
    elif event in ("os.link", "os.symlink", "shutil.move", "shutil.copyfile",
                   "shutil.copy2"):
        src, dst = sb.rel(args[0]), sb.rel(args[1])
        if src is not None or dst is not None:
            sb.events.append((event.split(".")[1], src, dst))


MUTATING = ("open_w", "rename", "remove", "truncate", "move", "copyfile",
            "link", "symlink")


def install():
    global _installed
    if _installed:
        return
    _installed = True
    sys.addaudithook(_hook)
    logging.getLogger("evo.tools.user").addHandler(_WarnTap())


class Sandbox:
    def __init__(self, root):
        install()
        self.root = os.path.realpath(root)
        self.active = False
        self.events = []
        self.answers = []
        self.default_answer = "<EOF>"
        self.fault = None
        self.fault_fired = False
        self.late = None  # a file another job drops into the sandbox mid-op
        self.late_count = 0
        self.peer = UserPeer(self)

    # -- life cycle
    def reset(self):
        global CURRENT
        CURRENT = self
        if os.path.isdir(self.root):
            shutil.rmtree(self.root)
        os.makedirs(self.root)
        os.chdir(self.root)
        builtins.input = self.peer

    def close(self):
        global CURRENT
        self.active = False
        builtins.input = _real_input
        CURRENT = None
        try:
            os.chdir("/")
            shutil.rmtree(self.root, ignore_errors=True)
        except OSError:
            pass

    # -- helpers
    def rel(self, path):
        try:
            p = os.fspath(path)
        except TypeError:
            return None
        if isinstance(p, bytes):
            try:
                p = p.decode()
            except UnicodeDecodeError:
                return None
        if not os.path.isabs(p):
            p = os.path.join(self.root, p)  # cwd is the sandbox root
        # where the kernel will look: the directory part is resolved the way
        # the kernel does ("link/../x" is not "x" when link is a symlink to a
        # directory elsewhere); the last component is kept, a link that IS the
        # target stays that link
        d, b = os.path.split(p)
        if b in ("", ".", ".."):
            p = os.path.realpath(p)
        else:
            p = os.path.join(os.path.realpath(d), b)
        if p == self.root:
            return "."
        if p.startswith(self.root + "/"):
            return p[len(self.root) + 1:]
        return None

    def maybe_fail(self, rel):
        f = self.fault
        if f is not None and not self.fault_fired and f["path"] == rel:
            self.fault_fired = True
            self.events.append(("fault", rel, f["errno"]))
            raise OSError(f["errno"], os.strerror(f["errno"]), rel)

    def maybe_plant(self):
        """'another process' creates a file while the operation is running:
        after the k-th observed disk event of the operation"""
        late = self.late
        # only while the command is still reading its input files: any
        # implementation has a window between its existence check and its
        # write, and a file appearing inside that window is not "a path that
        # already exists" in the sense of the property
        last = self.events[-1] if self.events else None
        if not (last and last[0] == "open_r" and str(last[1]).startswith(
                ("in/", "in2/"))):
            return
        self.late_count += 1
        if self.late_count < late["after"]:
            return
        self.late = None
        path = os.path.join(self.root, late["path"])
        if os.path.lexists(path):
            return
        self.active = False
        try:
            os.makedirs(os.path.dirname(path), exist_ok=True)
            with open(path, "wb") as f:
                f.write(late["data"])
            ino = os.stat(path).st_ino
        finally:
            self.active = True
        self.events.append(("planted", late["path"], ino))

    def snapshot(self):
        """relpath -> (bytes, inode) of every regular file in the sandbox"""
        out = {}
        for d, dirs, files in os.walk(self.root):
            dirs.sort()
            for f in sorted(files):
                p = os.path.join(d, f)
                try:
                    st = os.stat(p)  # follows a symlink to the real file
                except OSError:
                    continue  # dangling link
                with open(p, "rb") as fh:
                    out[os.path.relpath(p, self.root)] = (fh.read(), st.st_ino)
        return out

    def run(self, fn, answers=(), fault=None, default_answer="<EOF>",
            late=None):
        """execute fn() under observation -> (events, exception | None)"""
        self.late = dict(late) if late else None
        self.late_count = 0
        self.events = []
        self.answers = list(answers)
        self.default_answer = default_answer
        self.fault = fault
        self.fault_fired = False
        exc = None
        self.active = True
        try:
            fn()
        except HarnessError:
            raise
        except BaseException as e:  # noqa
            exc = e
        finally:
            self.active = False
        return list(self.events), exc
