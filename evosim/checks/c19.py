"""
C19 - the settings file stays loadable across crashes and concurrent starts.

Engine E1: the real evo/tools/settings.py + evo/main_config.py run as virtual
processes on SimFS under a seeded scheduler with kill / interrupt / torn-write
/ stall / I/O-error injection.  Two deciding procedures:
  * crash-point sweep (fault enumeration) over canonical single-process
    workloads: every yield point x {kill, interrupt before, interrupt after,
    kill inside the write}, each followed by a fault-free start;
  * seeded schedule+fault search over 1-3 concurrent lanes and 1-3 epochs.
Invariants: I1 every instant settings.json absent or complete JSON object,
I2 the final fault-free start succeeds and sees every default key,
I3 every process that was not itself the target of a fault succeeds.
"""
from __future__ import annotations

import copy
import json
import random

from ..core import Check, RunResult, digest_of, HarnessError
from .. import vproc
from .. import settings_gen as sg
from ..settings_gen import SETTINGS_PATH, VERSION_PATH, EVO_DIR, WORK

FAULT_KINDS_CRASH = ["kill", "kill", "kill", "int", "int_after",
                     "kill_partial", "short", "stall"]
OPS_FOR_WHEN = ["open", "write", "rename", "stat", "mkdir", "read", "unlink",
                "access", "ftruncate"]


class _NotJson(ValueError):
    pass


def _not_json(name):
    raise _NotJson(name)


def i1_invariant(sim, vp, op, path):
    i = sim.fs.ents.get(SETTINGS_PATH)
    key = None if i is None else (i.ino, i.version)
    if key == sim._i1_key:
        return None
    sim._i1_key = key
    sim.counters["i1_checks"] += 1
    if i is None:
        return None
    data = bytes(i.data)
    try:
        obj = json.loads(data, parse_constant=_not_json)
        if isinstance(obj, dict):
            return None
        bad = "not-an-object"
    except _NotJson:
        # NaN / Infinity: Python's extension, no JSON document
        bad = "non-finite-number"
    except ValueError:
        bad = "empty" if len(data) == 0 else "partial"
    if any(v is not vp and v.state != vproc.DONE and not v.dead
           for v in sim.vprocs):
        sim.probe("bad_file_while_other_process_alive")
    return {
        "class": "I1",
        "sig": f"C19:I1:{bad}",
        "detail": {
            "what": "settings.json on disk is neither absent nor a complete "
            "JSON object at this instant",
            "state": bad,
            "size": len(data),
            "head": data[:60].decode("latin-1"),
            "after_op": [vp.vid, op, path],
        },
    }


LOCALES = ["ascii", "latin-1", "euc_jp", "cp1252"]


HUGE_FILE = f"{WORK}/huge_number.json"


def gen_command(rng, dflt, keys, merge_files):
    cmd = _gen_command(rng, dflt, keys, merge_files)
    if cmd["cmd"] == "config" and cmd["argv"][:1] == ["set"] and (
            rng.random() < 0.04):
        # what float() accepts but JSON cannot express; a merge file may say
        # the same with the valid literal 1e999.  Refusing is fine (such a
        # command is exempt from I3), writing it is not (I1)
        if HUGE_FILE in merge_files and rng.random() < 0.5:
            cmd["argv"] = ["set", "-m", HUGE_FILE]
        else:
            k = rng.choice([k for k in keys if isinstance(
                dflt[k], (int, float)) and not isinstance(dflt[k], bool)])
            cmd["argv"] = cmd["argv"] + [k, rng.choice(
                ["nan", "inf", "NaN", "Infinity", "1e999"])]
        cmd["nonfinite"] = True
    if HUGE_FILE in cmd.get("argv", ()):
        cmd["nonfinite"] = True
    if rng.random() < 0.15:
        # cron, ssh, a container: the same home under another locale
        cmd["locale"] = rng.choice(LOCALES)
    if rng.random() < 0.06:
        cmd["python_O"] = True  # python -O / PYTHONOPTIMIZE=1
    return cmd


def _gen_command(rng, dflt, keys, merge_files):
    cmd = _gen_command(rng, dflt, keys, merge_files)
    if cmd["cmd"] == "config" and cmd["argv"][0] == "set" and (
            rng.random() < 0.12):
        # the package settings named explicitly, in a non-canonical spelling
        cmd["argv"] = ["set", "-c", rng.choice(sg.SETTINGS_ALIASES)
                       ] + cmd["argv"][1:]
    if cmd["cmd"] == "config" and rng.random() < 0.85:
        # skip the (expensive, irrelevant) pygments colouring most of the time
        cmd["argv"] = [cmd["argv"][0], "--no_color"] + cmd["argv"][1:]
    return cmd


def _gen_command(rng, dflt, keys, merge_files):
    r = rng.random()
    if r < 0.34:
        return {"cmd": "start"}
    if r < 0.58:
        return {"cmd": "config",
                "argv": ["set"] + sg.gen_set_argv(rng, keys, dflt, 3)}
    if r < 0.70 and merge_files:
        argv = ["set", "-m", rng.choice(merge_files)]
        if rng.random() < 0.5:
            argv.append("--soft")
        if rng.random() < 0.3:
            argv += sg.gen_set_argv(rng, keys, dflt, 2)
        return {"cmd": "config", "argv": argv}
    if r < 0.78:
        return {"cmd": "config", "argv": ["reset", "-y"]}
    if r < 0.84:
        return {"cmd": "config", "argv": ["reset"],
                "answers": [rng.choice(["y", "n", "", "yes"])]}
    if r < 0.93:
        return {"cmd": "config",
                "argv": ["reset"] + rng.sample(keys, rng.randint(1, 4))}
    return {"cmd": "config",
            "argv": ["show"] + (["--brief"] if rng.random() < 0.5 else [])}


def gen_fault(rng, config, est_steps, nlanes):
    if config == "iofault":
        kind = rng.choice(["eio", "eio", "eio", "kill", "short", "short_os"])
    else:
        kind = rng.choice(FAULT_KINDS_CRASH)
    f = {"kind": kind}
    if kind == "eio":
        # ENOSPC EIO EACCES, and what a rename meets on mount points,
        # read-only or foreign file systems: EBUSY EXDEV EROFS EPERM
        f["errno"] = rng.choice([28, 5, 13, 28, 5, 13, 16, 18, 30, 1])
    if kind in ("short", "kill_partial", "short_os"):
        f["frac"] = rng.choice([0.01, 0.1, 0.5, 0.9, 0.99])
    if kind == "stall":
        f["dt"] = rng.choice([0.001, 0.05, 1.0])
    if kind == "short_os":
        f["when"] = {"op": "write_os", "n": rng.randint(1, 3)}
        return f
    if kind in ("short", "kill_partial") or rng.random() < 0.45:
        op = "write" if kind in ("short", "kill_partial") else rng.choice(
            OPS_FOR_WHEN)
        w = {"op": op, "n": rng.randint(1, 4)}
        if rng.random() < 0.5:
            w["path"] = rng.choice(["settings.json", "assets_version", ".evo"])
            if op in ("write", "rename", "ftruncate") and rng.random() < 0.7:
                w.pop("path")
        if nlanes > 1 and rng.random() < 0.3:
            w["lane"] = rng.randrange(nlanes)
        f["when"] = w
    else:
        f["rel"] = rng.randint(1, est_steps)
    return f


class C19(Check):
    prop = "C19"
    level = "fault_enumeration"
    quick_budget_s = 50.0
    quick_min_runs = 9000
    thorough_budget_s = 840.0
    batch = 100
    rule = (
        "random cases: initial home state (empty / dir only / dir+version / "
        "current / outdated install) x 1-3 epochs of 1-3 concurrent lanes of "
        "1-3 evo processes (start, evo_config set / set -m / reset / show) x "
        "scheduler policy (random, sticky, PCT, burst) x write chunk size x "
        "0-2 faults per epoch (kill, kill inside a write, interrupt before / "
        "after an operation, short write, stall; ENOSPC/EIO/EACCES only in the "
        "io-fault configuration, also EBUSY/EXDEV/EROFS/EPERM and a refused "
        "publishing rename followed by a kill), always followed by one "
        "fault-free start. Per process also: another locale encoding (15%), "
        "python -O (6%), environment variables evo's code was seen to read "
        "(discovery pass), an older release of evo for the first epoch (12%: "
        "older version string, fewer parameters); 8% write-protected "
        "settings.json; non-ASCII, non-finite (nan, inf, 1e999 nested in merge "
        "files) and comment-/JSON-like string values. I1 parses strictly. "
        "fixed cases: crash-point sweep - for each canonical single-process "
        "workload x initial state x chunk size, one case per yield point and "
        "crash kind - plus all schedules of 2 racing starts with <= 2 "
        "preemptions. A run is non-trivial if a fault fired or two processes "
        "of one epoch were interleaved (context switch between two live "
        "processes); distinct = distinct "
        "digest of the full operation log (step, process, op, path, fault).")
    assumptions = [
        "kill = SIGKILL: every completed file-system operation persists, "
        "buffered data of the killed process is lost (no power-loss model)",
        "pre-emption only at file-system operations (virtual processes share "
        "nothing but the disk)",
        "SimFS models POSIX open/O_TRUNC/O_EXCL/O_APPEND, per-description "
        "offsets, atomic rename, unlink of open files; no fcntl locks, no "
        "symlinks",
        "initial home states are ones evo itself produces, never "
        "hand-corrupted files",
    ]
    components = {
        "real": [
            "evo/__init__.py", "evo/tools/settings.py",
            "evo/tools/settings_template.py", "evo/tools/user.py",
            "evo/tools/log.py", "evo/main_config.py",
            "CPython io.BufferedWriter/BufferedReader/BufferedRandom/"
            "TextIOWrapper, json, argparse, pathlib, tempfile, logging"
        ],
        "stub": [
            "disk (SimFS)", "process (thread + private evo module table)",
            "scheduler", "stdin (scripted answers)", "time.time/sleep/monotonic",
            "os.getpid", "os.urandom", "tempfile candidate names",
            "colorama.init (no-op)"
        ],
    }
    required_probes = (
        "start_saw_empty_home", "start_saw_dir_without_version",
        "start_saw_version_without_settings", "two_procs_inside_initialize",
        "kill_during_upgrade", "kill_while_tmp_exists", "interrupt_ran_cleanup",
        "partial_write_fired", "rename_over_open_reader", "upgrade_added_keys",
        "mkdir_raced", "final_start_after_kill", "concurrent_writers",
    )

    # ---------------------------------------------------------------- setup
    def setup_worker(self):
        try:
            # before HOME is pointed at the simulated disk
            import seaborn.palettes  # noqa  (finalize_values imports it)
            import argcomplete  # noqa
            import colorama  # noqa
            import pygments.lexers.data  # noqa
            import pygments.formatters.terminal256  # noqa
            from pygments.styles import get_style_by_name
            for s in sg.SAFE_STR["pygments_style"]:
                get_style_by_name(s)
        except Exception as e:  # pragma: no cover
            raise HarnessError(f"cannot pre-import third-party modules: {e}")
        vproc.install_patches()
        self.dflt, self.version = sg.defaults()
        self.keys = sorted(self.dflt)
        # discovery pass (a fixed, tiny workload): the environment variables
        # evo's own code looks at while starting, editing and resetting -
        # their names are then part of the generated configuration space
        vproc.ENV_NAMES_SEEN.clear()
        sim = vproc.Sim(seed=0)
        sim.run([[{"cmd": "start"},
                  {"cmd": "config", "argv": ["set", "--no_color",
                                             "plot_split"]},
                  {"cmd": "config", "argv": ["show", "--brief",
                                             "--no_color"]},
                  {"cmd": "config", "argv": ["reset", "-y", "--no_color"]}]])
        self.env_names = sorted(vproc.ENV_NAMES_SEEN - {"HOME"})
        import gc
        gc.collect()
        gc.freeze()

    # ----------------------------------------------------------- generation
    def make_case(self, rng, tier, index):
        dflt, version, keys = self.dflt, self.version, self.keys
        init = sg.gen_initial_state(rng, dflt, version)
        if SETTINGS_PATH in init.get("files", {}) and rng.random() < 0.08:
            # the owner has write-protected the settings file (chmod 444)
            init["modes"] = {SETTINGS_PATH: 0o444}
        merge_files = []
        for k in range(rng.randint(0, 2)):
            p = f"{WORK}/other_{k}.json"
            init["files"][p] = sg.dumps(sg.gen_other_config(rng, dflt))
            merge_files.append(p)
        if rng.random() < 0.3:
            # the valid JSON literal 1e999 (-> inf), at the top level, in a
            # list, or nested deeper (a palette of RGB triples, an object)
            init["files"][HUGE_FILE] = rng.choice([
                '{"tf_cache_max_time": 1e999}',
                '{"plot_figsize": [1e999, 10]}',
                '{"plot_seaborn_palette": [[0.12, 0.47, 0.71], '
                '[1.0, 1e999, 0.05]]}',
                '{"my_plot_limits": {"z": [0, -1e999]}}',
                '{"tf_cache_max_time": 1e999}',
            ])
            merge_files.append(HUGE_FILE)
        config = rng.choice(["crash"] * 6 + ["faultfree"] * 2 +
                            ["iofault"] * 2)
        chunk = rng.choice([None] * 8 + [4096, 1024, 512, 100, 64, 7])
        small = chunk is not None and chunk < 64
        nep = rng.choice([1, 1, 1, 2, 2, 3])
        epochs = []
        for e in range(nep):
            r = rng.random()
            nl = 1 if r < 0.25 else (2 if r < 0.8 else 3)
            if tier == "thorough" and rng.random() < 0.05:
                nl = 4
            lanes = []
            for _ in range(nl):
                ncmd = 1 if small else rng.choice([1, 1, 2, 2, 3])
                if rng.random() < 0.3:
                    lanes.append([{"cmd": "start"}])
                else:
                    lanes.append([
                        gen_command(rng, dflt, keys, merge_files)
                        for _ in range(ncmd)
                    ])
            est = sum(12 + 12 * len(l) for l in lanes)
            if chunk:
                est += int(1900 / chunk) * sum(len(l) for l in lanes)
            nf = 0 if config == "faultfree" else rng.choice([0, 1, 1, 1, 2, 2])
            faults = [gen_fault(rng, config, est, nl) for _ in range(nf)]
            if config == "iofault" and rng.random() < 0.2:
                # the publishing rename is refused (settings.json is a mount
                # point, another file system ...), and whatever the writer
                # does next with the target itself is where the process dies
                # or where a second one looks
                faults = [
                    {"kind": "eio", "errno": rng.choice([16, 18, 30, 1]),
                     "when": {"op": "rename", "path": "settings.json",
                              "n": rng.randint(1, 2)}},
                    {"kind": rng.choice(["kill", "kill_partial", "kill"]),
                     "frac": rng.choice([0.1, 0.5, 0.9]),
                     "when": {"op": rng.choice(["write", "open", "write",
                                                "close", "unlink"]),
                              "path": "settings.json",
                              "n": rng.randint(1, 2)}},
                ]
            epochs.append({"lanes": lanes, "faults": faults})
        import re
        stored = init.get("files", {}).get(VERSION_PATH)
        def vt(v):
            return tuple(int(x) for x in v[1:].split("."))

        proper = [v for v in sg.OLD_VERSIONS if v != stored and v != version
                  and re.fullmatch(r"v\d+\.\d+\.\d+", v)
                  and re.fullmatch(r"v\d+\.\d+\.\d+", version)
                  and vt(v) < vt(version)]  # really OLDER than today's
        if rng.random() < 0.12 and proper and stored != version:
            # the first epoch is run by an older release of evo (its version
            # string, without some of today's parameters); later epochs and
            # the final start are today's release.  Only in the direction
            # releases follow each other: the home was never touched by
            # today's release (no current marker), the release's version is a
            # proper version string
            release = {"version": rng.choice(proper),
                       "without": rng.sample(
                           [k for k in keys if k not in (
                               "pygments_style", "console_logging_format",
                               "global_logfile_enabled")],
                           rng.randint(1, 3))}
            for lane in epochs[0]["lanes"]:
                for cmd in lane:
                    if cmd.get("cmd") in ("start", "config"):
                        cmd["release"] = release
        # environment variables evo's own code was seen to look at
        names = self.env_names
        if names and rng.random() < 0.25:
            for e in epochs:
                for lane in e["lanes"]:
                    for cmd in lane:
                        if cmd.get("cmd") in ("start", "config") and (
                                rng.random() < 0.4):
                            n = rng.choice(names)
                            cmd["env"] = {n: ":0" if n == "DISPLAY" else
                                          rng.choice(["1", "paper", "x", "0",
                                                      "test"])}
        pol = rng.choice([("random", ), ("sticky", 0.05), ("sticky", 0.2),
                          ("sticky", 0.5), ("pct", 1, 40), ("pct", 2, 40),
                          ("pct", 3, 60), ("burst", 0.5), ("burst", 1.0)])
        return {
            "kind": "random",
            "seed": rng.getrandbits(32),
            "init": init,
            "config": config,
            "chunk": chunk,
            "epochs": epochs,
            "policy": list(pol),
            "sched_seed": rng.getrandbits(32),
        }

    # ------------------------------------------------------------ execution
    def _simulate(self, case):
        sim = vproc.Sim(seed=case.get("seed", 0), chunk=case.get("chunk"),
                        step_cap=case.get("step_cap", 60000))
        sim._i1_key = None
        sim.invariant = i1_invariant
        sg.apply_initial_state(sim.fs, case["init"])
        sim.configure(sched=case.get("sched"),
                      policy=tuple(case.get("policy", ("random", ))),
                      sched_seed=case.get("sched_seed", 0))
        dflt = self.dflt
        violation = None
        epoch_info = []
        had_kill = False

        def probes_before_epoch():
            fs = sim.fs
            if fs.lookup(EVO_DIR) is None:
                sim.probe("start_saw_empty_home")
            elif fs.lookup(VERSION_PATH) is None:
                sim.probe("start_saw_dir_without_version")
            elif fs.lookup(SETTINGS_PATH) is None:
                sim.probe("start_saw_version_without_settings")

        for ei, ep in enumerate(case["epochs"]):
            if violation or sim.harness_error:
                break
            probes_before_epoch()
            faults = []
            for f in ep.get("faults", ()):
                f = dict(f)
                if "rel" in f:
                    f["step"] = sim.step + f.pop("rel")
                if "when" in f and "lane" in f["when"]:
                    w = dict(f["when"])
                    w["vid"] = len(sim.vprocs) + w.pop("lane")
                    f["when"] = w
                faults.append(f)
            first_op = len(sim.oplog)
            vps = sim.run(ep["lanes"], faults)
            self._epoch_probes(sim, vps, first_op)
            if sim.kills:
                had_kill = True
            if sim.violation is not None:
                violation = sim.violation
                break
            if sim.hang:
                violation = {
                    "class": "I3",
                    "sig": "C19:I3:hang",
                    "detail": {"what": "step cap exceeded",
                               "steps": sim.step}
                }
                break
            # I3
            for vp in vps:
                for ci, res in enumerate(vp.results):
                    if res["faulted"]:
                        continue
                    if not res["ok"] and ci < len(vp.program) and (
                            vp.program[ci].get("nonfinite")):
                        sim.probe("non_finite_value_refused")
                        continue
                    if not res["ok"] and case["init"].get("modes") and (
                            vp.program[ci].get("cmd") == "config") and (
                                "No permission to modify" in (
                                    res.get("stdout_tail") or "")):
                        # evo_config refuses to edit a settings file its
                        # owner has write-protected
                        sim.probe("edit_of_write_protected_file_refused")
                        continue
                    if not res["ok"]:
                        violation = {
                            "class": "I3",
                            "sig": "C19:I3:" + (res.get("exc_type") or str(
                                res["exc"]).split("(")[0].split(":")[0]),
                            "detail": {
                                "what": "a process that was not the target "
                                "of any injected fault failed",
                                "epoch": ei, "lane": vp.vid, "command": ci,
                                "cmd": vp.program[ci], "exception": res["exc"],
                                "stdout_tail": res.get("stdout_tail", "")[-200:],
                            }
                        }
                        break
                    st = res.get("settings")
                    if st is not None:
                        not_yet = set((vp.program[ci].get("release") or {}
                                       ).get("without", ())) if ci < len(
                                           vp.program) else set()
                        missing = [k for k in dflt
                                   if k not in st and k not in not_yet]
                        if missing:
                            violation = {
                                "class": "I3",
                                "sig": "C19:I3:missing-keys",
                                "detail": {
                                    "what": "a successfully started process "
                                    "does not see every default key",
                                    "epoch": ei, "lane": vp.vid,
                                    "command": ci, "missing": missing[:8]
                                }
                            }
                            break
                if violation:
                    break
            epoch_info.append([[r["ok"] for r in vp.results] for vp in vps])
        # I2: the process that starts afterwards
        if violation is None and sim.harness_error is None:
            # "any evo process that starts afterwards": also one with
            # another locale encoding (a pure function of the case)
            final = {"cmd": "start"}
            if case.get("seed", 0) % 4 == 0:
                final["locale"] = LOCALES[(case.get("seed", 0) // 4) % len(
                    LOCALES)]
            vps = sim.run([[final]], ())
            res = vps[0].results[0] if vps[0].results else {
                "ok": False, "exc": "did not run"}
            if had_kill:
                sim.probe("final_start_after_kill")
            if sim.violation is not None:
                violation = sim.violation
            elif sim.hang:
                violation = {"class": "I2", "sig": "C19:I2:hang",
                             "detail": {"what": "final start exceeded the "
                                        "step cap"}}
            elif not res["ok"]:
                violation = {
                    "class": "I2",
                    "sig": "C19:I2:" + (res.get("exc_type") or str(
                        res["exc"]).split("(")[0].split(":")[0]),
                    "detail": {
                        "what": "the fault-free start after the run failed",
                        "exception": res["exc"],
                        "disk": {
                            k: (None if v is None else
                                v[:80].decode("latin-1") + f"... ({len(v)} B)")
                            for k, v in sim.fs.snapshot().items()
                            if k.startswith(EVO_DIR)
                        },
                    }
                }
            else:
                missing = [k for k in dflt if k not in res["settings"]]
                if missing:
                    violation = {
                        "class": "I2",
                        "sig": "C19:I2:missing-keys",
                        "detail": {
                            "what": "the fault-free start after the run does "
                            "not see every default key",
                            "missing": missing[:8],
                            "version_file": (sim.fs.read_bytes(VERSION_PATH)
                                             or b"").decode("latin-1"),
                        }
                    }
        if sim.harness_error is not None:
            raise HarnessError(sim.harness_error)
        return sim, violation, epoch_info

    def _epoch_probes(self, sim, vps, first_op):
        """rare-condition counters derived from the operation log"""
        log = sim.oplog[first_op:]
        inside_init = {}
        open_readers = {}
        tmp_alive = False
        writers = set()
        for (step, vid, op, path, fault) in log:
            if op == "mkdir" and path == EVO_DIR:
                if sim.fs.lookup(EVO_DIR) is not None and any(
                        o == "mkdir" and p == EVO_DIR and v != vid
                        for (_, v, o, p, _f) in log):
                    sim.probe("mkdir_raced")
            if op in ("stat", "mkdir") and path.startswith(EVO_DIR):
                inside_init[vid] = True
            if path == SETTINGS_PATH and op == "open":
                open_readers[vid] = step
            if op == "rename" and path == SETTINGS_PATH:
                if any(v != vid for v in open_readers):
                    sim.probe("rename_over_open_reader")
            if op in ("write", "write_os") and (
                    path.startswith(SETTINGS_PATH)):
                writers.add(vid)
            if path.startswith(EVO_DIR + "/") and path not in (
                    SETTINGS_PATH, VERSION_PATH) and op == "open":
                tmp_alive = True
            if fault in ("kill", "kill_partial"):
                if tmp_alive:
                    sim.probe("kill_while_tmp_exists")
            if fault in ("int", "int_after"):
                # did the interrupted process still do disk work afterwards?
                if any(v == vid and s > step for (s, v, o, p, f2) in log):
                    sim.probe("interrupt_ran_cleanup")
        if len(writers) > 1:
            sim.probe("concurrent_writers")
        lanes_in_init = [
            vp for vp in vps if vp.vid in inside_init
        ]
        if len(lanes_in_init) > 1:
            # two processes interleaved while both were in their start-up code
            vids = [vid for (_, vid, op, path, _) in log
                    if path.startswith(EVO_DIR)]
            switches = sum(1 for a, b in zip(vids, vids[1:]) if a != b)
            if switches >= 2:
                sim.probe("two_procs_inside_initialize")
        if sim.counters.get("partial_writes"):
            sim.probe("partial_write_fired", sim.counters.pop("partial_writes"))
        for vp in vps:
            for res in vp.results:
                out = res.get("stdout_tail") or ""
                if "Updated outdated" in out:
                    sim.probe("upgrade_added_keys")
                    if any(f in ("kill", "kill_partial")
                           for (*_, f) in log):
                        pass
        if any(f in ("kill", "kill_partial") for (*_x, f) in log):
            ver = sim.fs.read_bytes(VERSION_PATH)
            if ver is not None and ver.decode("latin-1") != self.version:
                sim.probe("kill_during_upgrade")

    def execute(self, case) -> RunResult:
        sim, violation, epoch_info = self._simulate(case)
        res = RunResult(case=None)
        res.violation = violation
        oplog = [list(e) for e in sim.oplog]
        res.digest = digest_of([oplog, epoch_info,
                                sorted(sim.fs.snapshot().items()),
                                violation["sig"] if violation else None])
        res.steps = sim.step
        res.sim_time = sim.now
        res.stats.update(sim.counters)
        nontrivial = bool(sim.fired) or sim.interleave_events > 0
        if nontrivial:
            res.nontrivial_key = res.digest
        res.stats["config." + case.get("config", "sweep")] += 1
        res.stats["runs_with_fault_fired"] += 1 if sim.fired else 0
        res.aux["interleavings"] = [digest_of(sim.trace)] if (
            sim.interleave_events > 0) else []
        res.aux["disk_states"] = [
            digest_of(sorted(sim.fs.snapshot().items()))
        ]
        if violation is not None:
            violation["trace"] = list(sim.trace)
            violation["fired"] = [list(f) for f in sim.fired]
        return res

    # ---------------------------------------------------------- fixed cases
    def sweep_workloads(self):
        dflt, version = self.dflt, self.version
        rng = random.Random(1909)
        cur = {"state": "current", "dirs": [EVO_DIR], "files": {
            VERSION_PATH: version,
            SETTINGS_PATH: sg.dumps(dict(dflt, plot_linewidth=3,
                                         plot_split=True))}}
        old = dict(dflt, plot_linewidth=3)
        for k in ("plot_usetex", "ros_map_cmap", "table_export_format"):
            del old[k]
        outdated = {"state": "outdated", "dirs": [EVO_DIR], "files": {
            VERSION_PATH: "v1.12.0", SETTINGS_PATH: sg.dumps(old)}}
        other = f"{WORK}/other.json"
        merge_init = copy.deepcopy(cur)
        merge_init["files"][other] = sg.dumps(
            {"plot_linewidth": 9, "plot_mode": "xz", "plot_split": False})
        merge_old = copy.deepcopy(outdated)
        merge_old["files"][other] = merge_init["files"][other]
        inits = {
            "empty": {"state": "empty", "dirs": [], "files": {}},
            "dir_only": {"state": "dir_only", "dirs": [EVO_DIR], "files": {}},
            "dir_version": {"state": "dir_version", "dirs": [EVO_DIR],
                            "files": {VERSION_PATH: version}},
            "current": cur, "outdated": outdated,
        }
        w = []
        for name in ("empty", "dir_only", "dir_version"):
            w.append(("first_init:" + name, inits[name], [{"cmd": "start"}]))
        w.append(("upgrade", outdated, [{"cmd": "start"}]))
        # the same upgrade performed by an OLDER release (which does not know
        # two of the parameters yet); the start afterwards is today's
        w.append(("upgrade_by_older_release", outdated, [
            {"cmd": "start", "release": {
                "version": "v1.30.0",
                "without": ["plot_usetex", "table_export_format"]}}]))
        for name in ("current", "outdated"):
            i = inits[name]
            w.append(("reset_all:" + name, i,
                      [{"cmd": "config", "argv": ["reset", "-y"]}]))
            w.append(("reset_subset:" + name, i,
                      [{"cmd": "config", "argv": ["reset", "plot_linewidth",
                                                  "plot_split"]}]))
            w.append(("set:" + name, i,
                      [{"cmd": "config", "argv": ["set", "plot_linewidth", "2",
                                                  "plot_usetex",
                                                  "plot_figsize", "4", "3"]}]))
        for name, i in (("current", merge_init), ("outdated", merge_old)):
            w.append(("merge_hard:" + name, i,
                      [{"cmd": "config", "argv": ["set", "-m", other]}]))
            w.append(("merge_soft:" + name, i,
                      [{"cmd": "config",
                        "argv": ["set", "-m", other, "--soft",
                                 "plot_split"]}]))
        w.append(("set_via_alias:current", cur,
                  [{"cmd": "config",
                    "argv": ["set", "-c", sg.SETTINGS_ALIASES[0],
                             "plot_linewidth", "2", "plot_usetex"]}]))
        w.append(("merge_via_alias:current", merge_init,
                  [{"cmd": "config",
                    "argv": ["set", "-c", sg.SETTINGS_ALIASES[1], "-m",
                             other]}]))
        w.append(("set_then_reset:current", cur,
                  [{"cmd": "config", "argv": ["set", "plot_split"]},
                   {"cmd": "config", "argv": ["reset", "plot_split"]}]))
        return w

    def fixed_cases(self, tier):
        cases = []
        self.sweep_points = 0
        chunks = [None, 512, 7] if tier == "quick" else [None, 4096, 512, 64,
                                                          7, 1]
        every_byte_for = ("set:current", )  # chunk 1: every partial length
        tiny_for = ("first_init:empty", "upgrade", "set:current",
                    "merge_hard:current", "reset_subset:outdated")
        for name, init, prog in self.sweep_workloads():
            for chunk in chunks:
                tiny = chunk is not None and chunk < 64
                if tiny and name not in tiny_for:
                    continue
                if chunk == 1 and name not in every_byte_for:
                    continue
                base = {"kind": "sweep", "workload": name, "seed": 7,
                        "init": init, "config": "sweep", "chunk": chunk,
                        "epochs": [{"lanes": [prog], "faults": []}],
                        "policy": ["random"], "sched_seed": 0}
                sim, violation, _ = self._simulate(base)
                n = len([e for e in sim.oplog if e[1] == 0])
                ops = [e for e in sim.oplog if e[1] == 0]
                for j, (step, vid, op, path, _f) in enumerate(ops):
                    kinds = ["kill", "int", "int_after"]
                    if op in ("write", "write_os"):
                        kinds.append("kill_partial")
                    if op == "write_os":
                        kinds.append("short_os")  # partial success (ENOSPC)
                    if tiny and op == "write":
                        # every partial length is already a kill point
                        kinds = ["kill"] if j % 8 else ["kill", "int"]
                        if chunk == 1 and j % 3:
                            continue
                    for kind in kinds:
                        c = copy.deepcopy(base)
                        f = {"kind": kind, "step": step}
                        if kind in ("kill_partial", "short_os"):
                            f["frac"] = 0.5
                        c["epochs"][0]["faults"] = [f]
                        c["sweep_point"] = [j, n, op, path]
                        cases.append(c)
                        self.sweep_points += 1
        # crash-point sweep under concurrency: process A is killed at each of
        # its yield points while a second, starting process B runs as one
        # block inserted at each position of A's execution
        self.sweep2_points = 0
        for name, init, prog in self.sweep_workloads():
            if name not in ("first_init:empty", "upgrade", "set:current",
                            "merge_hard:current", "reset_subset:outdated",
                            "reset_all:current"):
                continue
            base = {"kind": "sweep2", "workload": name, "seed": 11,
                    "init": init, "config": "sweep", "chunk": None,
                    "epochs": [{"lanes": [prog, [{"cmd": "start"}]],
                                "faults": []}],
                    "policy": ["random"], "sched_seed": 0}
            solo = copy.deepcopy(base)
            solo["epochs"][0]["lanes"] = [prog]
            sim, _, _ = self._simulate(solo)
            nA = len([e for e in sim.oplog if e[1] == 0])
            sa = 1 if tier != "quick" else 3
            sj = 1 if tier != "quick" else 2
            for a_steps in range(0, nA + 1, sa):
                for j in range(1, nA + 4, sj):
                    for kind in (("kill", "int") if tier != "quick" else
                                 ("kill", )):
                        c = copy.deepcopy(base)
                        c["sched"] = [0] * a_steps + [1] * 400 + [0] * 400
                        c["epochs"][0]["faults"] = [
                            {"kind": kind, "when": {"lane": 0, "n": j}}]
                        c["sweep_point"] = [a_steps, j, kind, name]
                        cases.append(c)
                        self.sweep2_points += 1
        # all schedules of two racing starts with <= 2 preemptions
        dflt, version = self.dflt, self.version
        inits = [w[1] for w in self.sweep_workloads()
                 if w[0].startswith("first_init") or w[0] == "upgrade"]
        for init in inits:
            base = {"kind": "preemption_bounded", "seed": 9, "init": init,
                    "config": "faultfree", "chunk": None,
                    "epochs": [{"lanes": [[{"cmd": "start"}],
                                          [{"cmd": "start"}]], "faults": []}],
                    "policy": ["random"], "sched_seed": 0}
            solo = dict(base, epochs=[{"lanes": [[{"cmd": "start"}]],
                                       "faults": []}])
            sim, _, _ = self._simulate(solo)
            n = len(sim.oplog)  # steps of one start on this state
            top = n + 12  # a repaired tree may need more steps when racing
            scheds = set()
            for first in (0, 1):
                other_ = 1 - first
                for a in range(0, top + 1):
                    # 1 preemption: `first` runs a steps, then the other one
                    # runs to completion, then `first` finishes
                    scheds.add(tuple([first] * a + [other_] * (top * 2)))
                    for b in range(1, top + 1, 1 if tier != "quick" else 2):
                        scheds.add(
                            tuple([first] * a + [other_] * b + [first] *
                                  (top * 2)))
            if tier != "quick" and init.get("state") in ("empty",
                                                         "outdated"):
                # 3 preemptions (every other position)
                for first in (0, 1):
                    other_ = 1 - first
                    for a in range(0, top + 1, 2):
                        for b in range(1, top + 1, 2):
                            for c3 in range(1, top + 1, 2):
                                scheds.add(tuple(
                                    [first] * a + [other_] * b + [first] * c3 +
                                    [other_] * (top * 2) + [first] * (top * 2)))
            for s in sorted(scheds):
                c = copy.deepcopy(base)
                c["sched"] = list(s)
                cases.append(c)
        return cases

    # ------------------------------------------------------------ shrinking
    def shrink_candidates(self, case):
        case = copy.deepcopy(case)
        if case.get("sched") is None:
            sim, violation, _ = self._simulate(case)
            c = copy.deepcopy(case)
            c["sched"] = list(sim.trace)
            yield c
            return
        eps = case["epochs"]
        # drop epochs
        for i in range(len(eps)):
            if len(eps) > 1:
                c = copy.deepcopy(case)
                del c["epochs"][i]
                yield c
        # empty a lane
        for i, ep in enumerate(eps):
            for li, lane in enumerate(ep["lanes"]):
                if lane:
                    c = copy.deepcopy(case)
                    c["epochs"][i]["lanes"][li] = []
                    yield c
        # drop one command
        for i, ep in enumerate(eps):
            for li, lane in enumerate(ep["lanes"]):
                for ci in range(len(lane)):
                    if len(lane) > 1:
                        c = copy.deepcopy(case)
                        del c["epochs"][i]["lanes"][li][ci]
                        yield c
        # simplify commands to plain starts
        for i, ep in enumerate(eps):
            for li, lane in enumerate(ep["lanes"]):
                for ci, cmd in enumerate(lane):
                    if cmd.get("cmd") != "start":
                        c = copy.deepcopy(case)
                        c["epochs"][i]["lanes"][li][ci] = {"cmd": "start"}
                        yield c
        # drop faults
        for i, ep in enumerate(eps):
            for fi in range(len(ep.get("faults", ()))):
                c = copy.deepcopy(case)
                del c["epochs"][i]["faults"][fi]
                yield c
        if case.get("chunk") is not None:
            c = copy.deepcopy(case)
            c["chunk"] = None
            yield c
        # simpler initial state
        if case["init"].get("state") not in ("empty", None) and len(
                case["init"]["files"]) > 0:
            for p in list(case["init"]["files"]):
                if p.startswith(WORK):
                    continue
            c = copy.deepcopy(case)
            c["init"] = {"state": "empty", "files": {
                p: t for p, t in case["init"]["files"].items()
                if p.startswith(WORK)}, "dirs": []}
            yield c
        # schedule: truncate (the rest falls back to 'stay with the last one')
        s = case["sched"]
        n = len(s)
        cuts = sorted({n // 2, (3 * n) // 4, n - 1, n - 2, n - 4, n - 8} - {n})
        for k in cuts:
            if 0 <= k < n:
                c = copy.deepcopy(case)
                c["sched"] = s[:k]
                yield c
        # remove single context switches
        sw = [i for i in range(1, n) if s[i] != s[i - 1]]
        for i in sw[:80]:
            c = copy.deepcopy(case)
            c["sched"] = s[:i] + [s[i - 1]] + s[i + 1:]
            yield c

    def describe(self, case):
        d = {
            "kind": case.get("kind"),
            "init_state": case["init"].get("state"),
            "config": case.get("config"),
            "chunk": case.get("chunk"),
            "policy": case.get("policy"),
            "epochs": [{
                "lanes": [[
                    c["cmd"] if c["cmd"] != "config" else
                    "evo_config " + " ".join(c["argv"]) for c in lane
                ] for lane in ep["lanes"]],
                "faults": ep.get("faults", []),
            } for ep in case["epochs"]],
        }
        if "sweep_point" in case:
            d["workload"] = case.get("workload")
            d["sweep_point"] = case["sweep_point"]
        if "sched" in case:
            d["sched_prefix"] = case["sched"][:40]
        return d

    def extra_evidence(self, agg):
        return {
            "sweep": {
                "what": "crash-point sweep: cases = yield points x "
                "{kill, interrupt before, interrupt after, kill inside write} "
                "per workload x initial state x chunk size; complete for "
                "these workloads",
                "cases": getattr(self, "sweep_points", None),
                "cases_under_concurrency": getattr(self, "sweep2_points",
                                                   None),
                "workloads": [w[0] for w in self.sweep_workloads()],
            },
        }


CHECK = C19()
