"""
C08 - trajectory operations have their documented effect and keep all views
consistent.  Engine E3 (pool.py / pool_ops.py), mutator-heavy mix; reports the
violations attributed to the receiver of an operation.
"""
from ._e3 import E3Check


class C08(E3Check):
    prop = "C08"
    mix = "c08"
    quick_min_runs = 9000
    required_probes = E3Check.required_probes + E3Check.C08_ONLY_PROBES


CHECK = C08()
