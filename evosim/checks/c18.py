"""
C18 - config edits keep keys, types, user values; generated configs equal
their args.

Engine E1 in its fault-free configuration: a long single history of
evo_config / -c operations, every operation executed as its own virtual
process (fresh module table, the real import-time initialise/upgrade code runs
first), on a simulated disk that is the only thing surviving between
operations.  After every operation the decoded files are compared with a plain
dict model whose update rules are transcribed from the property text and the
evo_config help.
"""
from __future__ import annotations

import copy
import importlib
import json
import os
import sys

from ..core import Check, RunResult, digest_of, HarnessError
from .. import vproc
from .. import settings_gen as sg
from ..settings_gen import SETTINGS_PATH, VERSION_PATH, EVO_DIR, WORK

PARSE_PRELOAD = vproc.PRELOAD_START + ("evo.core", "evo.core.units",
                                       "evo.entry_points")
PLOT_PRELOAD = ("evo.core.transformations", "evo.core.lie_algebra",
                "evo.core.geometry", "evo.core.filters",
                "evo.core.trajectory", "evo.tools.user", "evo.tools.plot")


# --------------------------------------------------------------- commands
def _jsonable_ns(ns):
    return {k: v for k, v in ns.items()}


def cmd_parse(sim, vp, cmd, res):
    """evo_<app> <argv>: the real parser + entry_points.merge_config"""
    app = cmd["app"]
    for name in PARSE_PRELOAD + (f"evo.main_{app}_parser", ):
        vproc.load_module(name)
    parser = sys.modules[f"evo.main_{app}_parser"].parser()
    sys.argv = [f"evo_{app}"] + list(cmd["argv"])
    if cmd.get("entry_order"):
        # entry_points.handle_entry_point: the app's main module is imported
        # after the parser is built and before the arguments are parsed
        importlib.import_module(f"evo.main_{app}")
    args = parser.parse_args(list(cmd["argv"]))
    if hasattr(args, "config"):
        args = sys.modules["evo.entry_points"].merge_config(args)
    res["namespace"] = dict(vars(args))
    settings = sys.modules["evo.tools.settings"]
    try:
        setattr(settings.SETTINGS, "zz_not_a_parameter", 1)
        res["accepts_unknown_after_merge"] = True
    except settings.SettingsException:
        res["accepts_unknown_after_merge"] = False
    if cmd.get("import_plot"):
        # what main_*.run() does next: import the plotting module, which
        # configures matplotlib / seaborn from SETTINGS at import time
        import matplotlib as mpl
        for name in PLOT_PRELOAD:
            vproc.load_module(name)
        res["rc"] = {k: mpl.rcParams[k] for k in (
            "lines.linewidth", "legend.loc", "font.family", "text.usetex",
            "pgf.texsystem")}
        res["rc"]["backend"] = mpl.get_backend()
    if cmd.get("fingerprint"):
        # everything run() may import later is imported now, i.e. after the
        # override; modules the entry point imported earlier stay as they are
        for name in FP_MODULES:
            importlib.import_module(name)
        res["fingerprint"] = module_fingerprint()


DATA = "/vhome/data"
OUT = "/vhome/out"


def cmd_app(sim, vp, cmd, res):
    """a whole evo_<app> run, exactly as entry_points.launch() performs it:
    parser, import of the main module, parse_args, merge_config, run(args)"""
    app = cmd["app"]
    for name in PARSE_PRELOAD + (f"evo.main_{app}_parser", ):
        vproc.load_module(name)
    parser = sys.modules[f"evo.main_{app}_parser"].parser()
    sys.argv = [f"evo_{app}"] + list(cmd["argv"])
    main_module = importlib.import_module(f"evo.main_{app}")
    args = parser.parse_args(list(cmd["argv"]))
    if hasattr(args, "config"):
        args = sys.modules["evo.entry_points"].merge_config(args)
    try:
        main_module.run(args)
    finally:
        import matplotlib.pyplot as plt
        plt.close("all")


def app_input_files():
    """two result archives and two TUM trajectories, built without evo"""
    import io
    import math
    import zipfile
    import numpy as np
    files = {}
    for i in (1, 2):
        rng = np.random.default_rng(100 + i)
        err = rng.random(24) + 0.1 * i
        info = {"title": "APE w.r.t. translation part (m)\n(not aligned)",
                "label": "APE (m)", "est_name": f"est{i}.txt",
                "ref_name": "ref.txt"}
        stats = {"rmse": float(np.sqrt((err**2).mean())),
                 "mean": float(err.mean()), "median": float(np.median(err)),
                 "std": float(err.std()), "min": float(err.min()),
                 "max": float(err.max()), "sse": float((err**2).sum())}
        arrays = {"error_array": err, "timestamps": np.arange(24.0) * 0.1,
                  "seconds_from_start": np.arange(24.0) * 0.1,
                  "distances_from_start": np.arange(24.0) * 0.5}
        b = io.BytesIO()
        with zipfile.ZipFile(b, "w") as z:
            def put(name, data):
                z.writestr(zipfile.ZipInfo(name, (2020, 1, 1, 0, 0, 0)), data)
            put("info.json", json.dumps(info))
            put("stats.json", json.dumps(stats))
            for name, arr in arrays.items():
                ab = io.BytesIO()
                np.save(ab, arr)
                put(name + ".npy", ab.getvalue())
        files[f"{DATA}/r{i}.zip"] = b.getvalue()
    for name, phase in (("a.txt", 0.0), ("b.txt", 0.05)):
        lines = []
        for k in range(30):
            t = 0.1 * k
            ang = 0.2 * k + phase
            lines.append("%.6f %.6f %.6f %.6f 0 0 %.6f %.6f" % (
                t, 3 * math.cos(ang) + phase, 3 * math.sin(ang), 0.1 * k,
                math.sin(ang / 2), math.cos(ang / 2)))
        files[f"{DATA}/{name}"] = ("\n".join(lines) + "\n").encode()
    return files


FP_MODULES = ("evo.core.units", "evo.core.transformations",
              "evo.core.lie_algebra", "evo.core.geometry", "evo.core.filters",
              "evo.core.trajectory", "evo.core.result", "evo.core.sync",
              "evo.core.metrics", "evo.tools.user", "evo.tools.log",
              "evo.tools.tf_id", "evo.tools.file_interface",
              "evo.tools.pandas_bridge", "evo.common_ape_rpe", "evo.main_ape",
              "evo.main_rpe", "evo.main_traj", "evo.main_res")


def _fp_simple(v, depth=0):
    """repr of plain data, None for anything else"""
    import enum
    if v is None or isinstance(v, (bool, int, float, str, bytes)):
        return repr(v)
    if isinstance(v, enum.Enum):
        return f"{type(v).__name__}.{v.name}={v.value!r}"
    if depth < 2 and type(v) in (tuple, list):
        parts = [_fp_simple(x, depth + 1) for x in v]
        if all(x is not None for x in parts):
            return type(v).__name__ + "(" + ", ".join(parts) + ")"
    if depth < 2 and type(v) is dict:
        parts = [(_fp_simple(k, depth + 1), _fp_simple(x, depth + 1))
                 for k, x in v.items()]
        if all(a is not None and b is not None for a, b in parts):
            return "{" + ", ".join(f"{a}: {b}" for a, b in sorted(parts)) + "}"
    return None


def _fp_defaults(f):
    out = []
    for d in (f.__defaults__ or ()):
        r = _fp_simple(d)
        out.append(r if r is not None else f"<{type(d).__name__}>")
    for k, d in sorted((f.__kwdefaults__ or {}).items()):
        r = _fp_simple(d)
        out.append(f"{k}=" + (r if r is not None else f"<{type(d).__name__}>"))
    return "(" + ", ".join(out) + ")"


def module_fingerprint():
    """what the loaded evo modules of this process froze when they were
    imported: argument defaults of every function / method and the plain-data
    globals and class attributes (the settings modules themselves excluded)"""
    import types
    out = {}
    for mname in sorted(sys.modules):
        if not mname.startswith("evo.") or mname.startswith(
                "evo.tools.settings"):
            continue
        mod = sys.modules[mname]
        if mod is None:
            continue
        for k, v in sorted(vars(mod).items()):
            if k.startswith("__"):
                continue
            if isinstance(v, types.FunctionType):
                if v.__module__ == mname:
                    out[f"{mname}.{k}()"] = _fp_defaults(v)
            elif isinstance(v, type):
                if v.__module__ != mname:
                    continue
                for a, f in sorted(vars(v).items()):
                    if a.startswith("__") and a != "__init__":
                        continue
                    f = getattr(f, "__func__", f)
                    if isinstance(f, types.FunctionType):
                        out[f"{mname}.{k}.{a}()"] = _fp_defaults(f)
                    else:
                        r = _fp_simple(f)
                        if r is not None:
                            out[f"{mname}.{k}.{a}"] = r
            else:
                r = _fp_simple(v)
                if r is not None:
                    out[f"{mname}.{k}"] = r
    return out


def cmd_lock(sim, vp, cmd, res):
    """in-process use of the loaded SETTINGS container"""
    settings = sys.modules["evo.tools.settings"]
    S = settings.SETTINGS
    out = {}
    try:
        setattr(S, cmd["unknown"], cmd.get("value", 1))
        out["setattr_unknown"] = "accepted"
    except settings.SettingsException:
        out["setattr_unknown"] = "refused"
    try:
        S.update_existing_keys({cmd["unknown"]: 5, cmd["known"]: cmd["kv"]})
        out["update_existing"] = "ok"
    except Exception as e:  # noqa
        out["update_existing"] = "raised " + type(e).__name__
    try:
        setattr(S, cmd["known2"], cmd["kv2"])
        out["setattr_known"] = "accepted"
    except settings.SettingsException:
        out["setattr_known"] = "refused"
    try:
        getattr(S, cmd["unknown"] + "_never")
        out["getattr_unknown"] = "returned"
    except settings.SettingsException:
        out["getattr_unknown"] = "refused"
    # the rest of the in-memory API
    out["locked"] = S.locked()
    out["get_known"] = (getattr(S, cmd["known"]), S[cmd["known"]])
    fresh = settings.SettingsContainer.from_json_file(settings.DEFAULT_PATH)
    out["reloaded"] = {k: v for k, v in fresh.items() if k != "__locked__"}
    out["reloaded_locked"] = fresh.locked()
    try:
        setattr(fresh, cmd["unknown"], 1)
        out["reloaded_accepts_unknown"] = True
    except settings.SettingsException:
        out["reloaded_accepts_unknown"] = False
    a = dict(cmd.get("md_a", {}))
    b = dict(cmd.get("md_b", {}))
    b0 = dict(b)
    merged = settings.merge_dicts(a, b, soft=bool(cmd.get("md_soft")))
    out["merge_dicts"] = dict(merged)
    out["merge_dicts_second_unchanged"] = (b == b0)
    res["lock"] = out


vproc.COMMANDS["parse"] = cmd_parse
vproc.COMMANDS["lock"] = cmd_lock
vproc.COMMANDS["app"] = cmd_app


def plot_run_affordable(settings):
    """can figures be rendered with these settings in reasonable time and
    memory?  (nothing to do with right or wrong)"""
    try:
        fs = settings["plot_figsize"]
        if not (isinstance(fs, list) and len(fs) == 2 and all(
                not isinstance(x, bool) and isinstance(x, (int, float))
                and 0.5 <= x <= 16 for x in fs)):
            return False
        for k, lo, hi in (("plot_fontscale", 0.1, 8), ("plot_linewidth", 0, 40),
                          ("plot_3d_zoom", 0.05, 10),
                          ("plot_axis_marker_scale", 0, 100),
                          ("plot_reference_axis_marker_scale", 0, 100)):
            x = settings[k]
            if isinstance(x, bool) or not isinstance(x, (int, float)) or not (
                    lo <= x <= hi):
                return False
        return sg.plot_import_safe(settings)
    except (KeyError, TypeError):
        return False


# affordable values for the numeric plot settings of whole runs
APP_RUN_VALUES = {
    "plot_figsize": [[4, 3], [6, 6], [3, 5], [8, 4]],
    "plot_fontscale": [0.8, 1.0, 1.5],
    "plot_linewidth": [0.5, 1.5, 3, 4.0],
    "plot_trajectory_alpha": [0.3, 0.75, 1.0],
}

# settings consumed by the table writer and by plotting
APP_RUN_KEYS = [
    "table_export_format", "table_export_transpose", "table_export_data",
    "plot_linewidth", "plot_figsize", "plot_fontfamily", "plot_fontscale",
    "plot_seaborn_style", "plot_seaborn_enabled", "plot_split",
    "plot_statistics", "plot_legend_loc", "plot_show_legend",
    "plot_xyz_realistic", "plot_multi_cmap", "plot_seaborn_palette",
    "plot_trajectory_alpha", "plot_show_axis", "plot_mode_default",
    "plot_reference_linestyle", "plot_trajectory_linestyle",
    "save_traj_in_zip",
]

# names that are not among the settings keys: free ones, option names of the
# apps, and names the container class itself has (methods of dict, its own)
UNKNOWN_NAMES = ["not_a_setting_or_option", "my_param", "plot_foo", "align",
                 "x", "copy", "items", "update", "get", "keys", "values",
                 "locked", "pop", "clear", "from_json_file",
                 "update_existing_keys", "setdefault"]


# ------------------------------------------------------------------ model
def conv(tok):
    try:
        return int(tok)  # exact, also beyond 2**53
    except ValueError:
        pass
    try:
        f = float(tok)
    except ValueError:
        return tok
    if f != f or f in (float("inf"), float("-inf")):
        return tok
    return int(f) if f == int(f) else f


def same(a, b):
    """type-aware equality: True != 1; int and float both count as number"""
    if isinstance(a, bool) or isinstance(b, bool):
        return type(a) is type(b) and a == b
    if isinstance(a, (int, float)) and isinstance(b, (int, float)):
        return a == b
    if isinstance(a, (list, tuple)) and isinstance(b, (list, tuple)):
        return len(a) == len(b) and all(same(x, y) for x, y in zip(a, b))
    if isinstance(a, dict) and isinstance(b, dict):
        return a.keys() == b.keys() and all(same(a[k], b[k]) for k in a)
    return type(a) is type(b) and a == b


def kind_of(v):
    if isinstance(v, bool):
        return "bool"
    if isinstance(v, (int, float)):
        return "number"
    if isinstance(v, list):
        return "list"
    if isinstance(v, str):
        return "str"
    return type(v).__name__


class Alt:
    """a value for which the statement allows several representations"""
    def __init__(self, *options):
        self.options = options


def split_groups(tokens, keys):
    groups = []
    cur = None
    for t in tokens:
        if t in keys:
            cur = [t, []]
            groups.append(cur)
        elif cur is not None:
            cur[1].append(t)
    return groups


def model_set(cfg: dict, tokens):
    """documented effect of `evo_config set <tokens>` on a config dict"""
    named = []
    for key, values in split_groups(tokens, set(cfg)):
        named.append(key)
        cur = cfg[key]
        if isinstance(cur, Alt):
            cur = cur.options[0]
        if key == "plot_seaborn_palette":
            if not values:
                continue
            vals = [conv(v) for v in values]
            cfg[key] = Alt(vals[0], vals) if len(vals) == 1 else vals
        elif isinstance(cur, bool):
            if not values:
                cfg[key] = not cur
            elif str(values[-1]).lower() == "true":
                cfg[key] = True
            elif str(values[-1]).lower() == "false":
                cfg[key] = False
            else:
                cfg[key] = not cur
        elif isinstance(cur, list):
            if not values:
                continue
            if str(values[0]).lower() in ("none", "[]"):
                cfg[key] = []
            else:
                cfg[key] = [conv(v) for v in values]
        else:
            if not values:
                continue
            cfg[key] = conv(values[0])
    return named


ENV_DEFAULTS = {
    # get_default_plot_backend(): "Agg" without DISPLAY, else Qt5Agg / TkAgg;
    # which one a process writes depends on ITS environment - all are accepted
    # where a default is (re)assigned, a value the user has set stays exact
    "plot_backend": ("Agg", "TkAgg", "Qt5Agg"),
}


class Model:
    def D(self, k):
        """the value a process assigns when it (re)sets k to its default"""
        if k in ENV_DEFAULTS:
            opts = [self.dflt[k]] + [o for o in ENV_DEFAULTS[k]
                                     if o != self.dflt[k]]
            return Alt(*opts)
        return copy.deepcopy(self.dflt[k])

    def __init__(self, dflt, version):
        self.dflt = dflt
        self.cur_version = version
        self.settings = None  # dict | None (file absent)
        self.version = None  # str | None
        self.dir = False
        self.files = {}  # path -> dict (config files on the disk)
        self.obsolete_ok = {}

    def load_initial(self, init):
        files = init.get("files", {})
        self.dir = EVO_DIR in init.get("dirs", ()) or any(
            p.startswith(EVO_DIR + "/") for p in files)
        if SETTINGS_PATH in files:
            self.settings = json.loads(files[SETTINGS_PATH])
        if VERSION_PATH in files:
            self.version = files[VERSION_PATH]
        for p, t in files.items():
            if p.startswith(WORK + "/"):
                self.files[p] = json.loads(t)

    def start(self):
        """what every evo process does before anything else"""
        events = []
        self.dir = True
        if self.version is None:
            self.version = self.cur_version
        if self.settings is None:
            self.settings = {k: self.D(k) for k in self.dflt}
            events.append("reinit")
        if self.version != self.cur_version:
            added = [k for k in self.dflt if k not in self.settings]
            for k in added:
                self.settings[k] = self.D(k)
            self.version = self.cur_version
            events.append("upgrade")
            if added:
                events.append("upgrade_added_keys")
        return events


def compare(actual, model, named=None):
    """-> list of (what, key, expected, actual); resolves Alt in the model"""
    out = []
    if not isinstance(actual, dict):
        return [("not-an-object", None, None, repr(actual)[:60])]
    # the container's lock flag is not a parameter: whether a file carries it
    # is immaterial
    actual = {k: v for k, v in actual.items() if k != sg.RESERVED_KEY}
    for k in model:
        if k == sg.RESERVED_KEY:
            continue
        if k not in actual:
            out.append(("key-removed", k, _plain(model[k]), None))
    for k in actual:
        if k not in model:
            out.append(("key-added", k, None, actual[k]))
    for k, mv in list(model.items()):
        if k not in actual:
            continue
        av = actual[k]
        if isinstance(mv, Alt):
            hit = [o for o in mv.options if same(o, av)]
            if hit:
                model[k] = av
                continue
            mv = mv.options[0]
        if not same(mv, av):
            if kind_of(mv) != kind_of(av):
                what = "type-changed"
            elif named is not None and k not in named:
                what = "unnamed-key-changed"
            else:
                what = "value-mismatch"
            out.append((what, k, mv, av))
    return out


def _plain(v):
    return v.options[0] if isinstance(v, Alt) else v


def plain_dict(d):
    return {k: _plain(v) for k, v in d.items()}


# --------------------------------------------------------------- options
class OptionAlphabet:
    """long options of a real parser, read off the parser objects"""
    STR_VALUES = ["out/plot.pdf", "results.zip", "a_b.json", "run1/log.txt",
                  "map.yaml", "traj_ref.txt", "fig.png", "table.csv",
                  # legal file names with characters that mean something to
                  # an option parser
                  "runs/seed=3/ape.pdf", "k=v=w.zip", "my plot.png",
                  "a,b.csv", "tr\u00e4j.zip", "./x:y.json", "50%.txt",
                  "@home.txt", "x=-1.zip",
                  # a literal '$' (quoted on the shell's command line): names
                  # that are and are not defined in the process environment
                  "$HOME/out.pdf", "plots_${HOME}/a.pdf", "cost_$5.txt",
                  "$NO_SUCH_VARIABLE_X/y.zip", "~/tilde.json",
                  # JSON punctuation / comment markers in a file name
                  "plots/run[3,]/ape.pdf", "a,}b.zip", "x//y.png"]
    INT_VALUES = ["0", "1", "5", "500", "12", "1000", "+7", "007",
                  # not representable as a double
                  "9007199254740993", "123456789012345678"]
    NEG_INT_VALUES = ["-1", "-3", "-10"]
    FLOAT_VALUES = ["0.5", "5", "1e-3", "2.5e2", "0", "100.0", "0.01", "3",
                    "1.25", ".5", "5.", "1e+2", "+2.5", "1.4e+09", "2E3",
                    # 1 and 0 compare equal to True / False in Python
                    "1", "1.0", "1e0", "0.0", "1", "0"]
    NEG_FLOAT_VALUES = ["-0.5", "-1", "-.25", "-10.75"]
    # spellings argparse only accepts as an explicit `--name=value` (as two
    # tokens they look like options to it): how repr() writes small and
    # large negative floats (seeded defect c18z)
    NEG_FLOAT_EQ_ONLY = ["-1e-05", "-2.5e-1", "-5.", "-1E3", "-1.5e+2",
                         "-0.5", "-3"]

    def __init__(self, app, sub):
        import argparse
        mod = vproc.load_private(f"evo.main_{app}_parser") if False else None
        self.app, self.sub = app, sub
        self.options = []

    @staticmethod
    def from_parser(parser, app, sub):
        import argparse
        self = OptionAlphabet(app, sub)
        p = parser
        if sub is not None:
            spa = [a for a in p._actions
                   if isinstance(a, argparse._SubParsersAction)][0]
            p = spa.choices[sub]
        self.positionals = []
        group_of = {}
        for gi, g in enumerate(p._mutually_exclusive_groups):
            for ga in g._group_actions:
                group_of[id(ga)] = gi
        for a in p._actions:
            if isinstance(a, (argparse._HelpAction,
                              argparse._SubParsersAction)):
                continue
            longs = [o for o in a.option_strings if o.startswith("--")]
            if not a.option_strings:
                self.positionals.append((a.dest, a.nargs))
                continue
            if not longs or a.dest == "config":
                continue
            long_ = longs[0]
            if long_[2:] != a.dest:
                continue  # generate cannot know a renamed destination
            if isinstance(a, argparse._StoreTrueAction):
                kind = "flag"
            elif a.choices:
                kind = "choice"
            elif a.type is int:
                kind = "int"
            elif a.type is float:
                kind = "float"
            elif a.type in (None, str):
                kind = "str"
            else:
                continue
            n = a.nargs if isinstance(a.nargs, int) else 1
            self.options.append({
                "opt": long_, "dest": a.dest, "kind": kind, "n": n,
                "choices": [str(c) for c in a.choices] if a.choices else None,
                "group": group_of.get(id(a)),
            })
        return self

    def gen_option(self, rng, o):
        k = o["kind"]
        if k == "flag":
            return [o["opt"]]
        vals = []
        for _ in range(o["n"]):
            if k == "choice":
                vals.append(rng.choice(o["choices"]))
            elif k == "int":
                vals.append(rng.choice(self.INT_VALUES + self.NEG_INT_VALUES
                                       if rng.random() < 0.5 else
                                       self.INT_VALUES))
            elif k == "float":
                pool = self.FLOAT_VALUES
                if rng.random() < 0.35:
                    pool = self.NEG_FLOAT_VALUES
                vals.append(rng.choice(pool))
            else:
                vals.append(rng.choice(self.STR_VALUES))
        if len(vals) == 1 and rng.random() < 0.12:
            # argparse's other spelling of a long option with one value
            if k == "float" and rng.random() < 0.5:
                vals = [rng.choice(self.NEG_FLOAT_EQ_ONLY)]
            return [o["opt"] + "=" + vals[0]]
        return [o["opt"]] + vals

    def gen_argv(self, rng, nmax=6, exclude=()):
        opts = [o for o in self.options if o["dest"] not in exclude]
        picked = rng.sample(opts, min(len(opts), rng.randint(1, nmax)))
        chosen, groups = [], set()
        for o in picked:
            if o["group"] is not None:
                if o["group"] in groups:
                    continue  # mutually exclusive with one already chosen
                groups.add(o["group"])
            chosen.append(o)
        argv = []
        for o in chosen:
            argv += self.gen_option(rng, o)
        if chosen and rng.random() < 0.1:
            # an option given twice: the last occurrence wins in argparse
            o = rng.choice(chosen)
            if o["kind"] != "flag":
                argv += self.gen_option(rng, o)
        return argv, [o["dest"] for o in chosen]


APPS = [("ape", "tum", ["ref.txt", "est.txt"]),
        ("ape", "kitti", ["ref_poses.txt", "est_poses.txt"]),
        ("rpe", "tum", ["ref.txt", "est.txt"]),
        ("rpe", "euroc", ["data.csv", "est.txt"]),
        ("traj", "tum", ["a.txt", "b.txt"]),
        ("traj", "kitti", ["poses.txt"]),
        ("res", None, ["r1.zip", "r2.zip"])]


# ------------------------------------------------------------------ check
class C18(Check):
    prop = "C18"
    level = "exploration"
    case_timeout_s = 600  # whole runs with plots, on a loaded machine
    quick_budget_s = 50.0
    quick_min_runs = 2000
    thorough_budget_s = 840.0
    batch = 20
    rule = (
        "seeded histories of 5-40 operations, each run as its own virtual "
        "process on the simulated disk: evo_config set (token lists from the "
        "documented grammar, package settings or a -c file), set -m hard/soft,"
        " reset all / declined / subset, show, environment steps (older evo "
        "installed: old version string + dropped keys + obsolete keys; user "
        "deleted settings.json or ~/.evo; user wrote a config file), "
        "evo_config generate <argv from the real parsers' typed options> "
        "[-o file] followed by 'evo_X ... -c file' vs 'evo_X ... argv', "
        "'evo_X ... cli -c file' (priority, per-run SETTINGS override), "
        "in-process writes to the locked SETTINGS. The '-c' process follows "
        "the entry-point order (parser, import of evo.main_<app>, parse_args, "
        "merge_config, then the imports run() performs): matplotlib rc after "
        "importing evo.tools.plot, the file written by the table writer, and "
        "a fingerprint of everything the loaded evo modules froze at import "
        "time (argument defaults, plain globals) are compared with the "
        "overridden values / with a second process whose stored settings "
        "already are the overridden ones. After every operation the "
        "decoded settings.json and config files are compared type-aware with "
        "a dict model. A history is non-trivial if at least one operation "
        "changed durable state or compared two parsed namespaces; distinct = "
        "distinct digest of (operations, decoded disk state after each).")
    assumptions = [
        "values never spell a settings key; options (-c/-m/--soft) precede the "
        "key/value groups (documented grammar)",
        "pygments_style / console_logging_format only receive valid values",
        "string-typed CLI options never receive numeric-looking values "
        "(generate is parser-agnostic by design)",
        "tokens nan/inf are not generated",
        "after a full reset obsolete keys may be kept or dropped",
    ]
    components = {
        "real": [
            "evo/__init__.py", "evo/tools/settings.py",
            "evo/tools/settings_template.py", "evo/tools/user.py",
            "evo/tools/log.py", "evo/main_config.py", "evo/entry_points.py",
            "evo/main_ape_parser.py", "evo/main_rpe_parser.py",
            "evo/main_traj_parser.py", "evo/main_res_parser.py",
            "module bodies of evo/main_{ape,rpe,traj,res}.py, "
            "evo/common_ape_rpe.py, evo/core/*.py, evo/tools/{plot,"
            "pandas_bridge,file_interface,tf_id}.py (imported per process, "
            "run() itself is not executed)",
            "pandas_bridge.save_df_as_table (csv/json writers of pandas on "
            "SimFS)", "argparse, json, CPython io layers"
        ],
        "stub": [
            "disk (SimFS)", "process (thread + private evo module table)",
            "stdin (scripted answers)", "clock, pid, urandom, tempfile names",
            "colorama.init"
        ],
    }
    required_probes = (
        "upgrade", "upgrade_added_keys", "reinit", "set_bool_toggle",
        "set_bool_explicit", "set_list", "set_number", "set_on_config_file",
        "merge_soft_kept_existing", "merge_hard_overwrote", "merge_added_keys",
        "reset_subset_restored_changed_value", "reset_declined",
        "generate_int_option", "generate_negative_number",
        "generate_multi_value", "generate_overwrite_prompt",
        "run_c_overrode_cli", "run_c_overrode_settings", "lock_refused",
        "run_c_plot_import_checked", "run_c_fingerprint_with_override",
        "real_run_pairs_with_output", "real_run_pairs_with_effective_override",
    )

    def setup_worker(self):
        try:
            import seaborn.palettes  # noqa
            import argcomplete  # noqa
            import colorama  # noqa
            import pygments.lexers.data  # noqa
            import pygments.formatters.terminal256  # noqa
            from pygments.styles import get_style_by_name
            for s in sg.SAFE_STR["pygments_style"]:
                get_style_by_name(s)
            import numpy  # noqa (evo.core.units)
            import matplotlib.pyplot  # noqa (evo.tools.plot)
            import mpl_toolkits.mplot3d.art3d  # noqa
            import matplotlib.backends.backend_pdf  # noqa
            import matplotlib.backends.backend_svg  # noqa
            import matplotlib.backends.backend_agg  # noqa
            import pandas  # noqa (evo.tools.pandas_bridge)
            import scipy.spatial.transform  # noqa (evo.core.lie_algebra)
            import rosbags.rosbag1  # noqa (evo.tools.file_interface)
            import rosbags.rosbag2  # noqa
            import rosbags.typesys  # noqa
        except Exception as e:  # pragma: no cover
            raise HarnessError(f"cannot pre-import third-party modules: {e}")
        self.app_inputs = app_input_files()
        from ..core import load_known_findings
        self.open_sigs = {sig for sig, _ in load_known_findings(self.prop)[0]}
        self.known_override_keys = set()
        for sig in self.open_sigs:
            if ":override-without-effect:" in sig:
                self.known_override_keys.update(
                    sig.rsplit(":", 1)[1].split("+"))
        try:
            # whole runs render figures: an absurd figure size stored by an
            # earlier operation must fail fast, not exhaust the machine
            import resource
            soft, hard = resource.getrlimit(resource.RLIMIT_AS)
            limit = 16 << 30
            if hard == resource.RLIM_INFINITY or hard > limit:
                resource.setrlimit(resource.RLIMIT_AS, (limit, hard))
        except (ImportError, ValueError, OSError):
            pass
        vproc.install_patches()
        self.dflt, self.version = sg.defaults()
        self.keys = sorted(self.dflt)
        self.alphabets = {}
        # read the option alphabet off the real parser objects, once, inside
        # a throw-away virtual process (the parser modules import SETTINGS)
        sim = vproc.Sim(seed=0)
        holder = {}

        def grab(sim_, vp, cmd, res):
            for name in PARSE_PRELOAD:
                vproc.load_module(name)
            for app in ("ape", "rpe", "traj", "res"):
                vproc.load_module(f"evo.main_{app}_parser")
                holder[app] = sys.modules[f"evo.main_{app}_parser"].parser()

        vproc.COMMANDS["_grab_parsers"] = grab
        vps = sim.run([[{"cmd": "_grab_parsers"}]])
        if not vps[0].results[0]["ok"]:
            raise HarnessError("cannot build the parsers: " +
                               str(vps[0].results[0]["exc"]))
        for app, sub, pos in APPS:
            self.alphabets[(app, sub)] = OptionAlphabet.from_parser(
                holder[app], app, sub)
        import gc
        gc.collect()
        gc.freeze()

    # ----------------------------------------------------------- generation
    def make_case(self, rng, tier, index):
        dflt, version, keys = self.dflt, self.version, self.keys
        init = sg.gen_initial_state(rng, dflt, version)
        nops = rng.randint(5, 14) if rng.random() < 0.7 else rng.randint(
            15, 40)
        if tier == "thorough" and rng.random() < 0.1:
            nops = rng.randint(41, 90)
        # generation tracks just enough state to produce valid operations
        cfg_files = {}
        ops = []
        nfile = 0
        for _ in range(nops):
            r = rng.random()
            if r < 0.30:
                target = None
                tkeys, tmodel = keys, dflt
                if cfg_files and rng.random() < 0.2:
                    target = rng.choice(sorted(cfg_files))
                    tmodel = cfg_files[target]
                    tkeys = sorted(tmodel)
                    if not tkeys:
                        continue
                tokens = self._gen_tokens(rng, tkeys, tmodel)
                ops.append({"op": "set", "target": target, "tokens": tokens,
                            "no_color": rng.random() < 0.85})
                if target is None and rng.random() < 0.1:
                    ops[-1]["alias"] = rng.choice(sg.SETTINGS_ALIASES)
                if target:
                    for t in tokens:
                        pass
            elif r < 0.40:
                other = f"{WORK}/other_{nfile}.json"
                nfile += 1
                content = sg.gen_other_config(rng, dflt)
                ops.append({"op": "env_write_config", "path": other,
                            "content": content})
                target = None
                if cfg_files and rng.random() < 0.2:
                    target = rng.choice(sorted(cfg_files))
                tokens = []
                if rng.random() < 0.35 and target is None:
                    tokens = self._gen_tokens(rng, keys, dflt, 3)
                ops.append({"op": "merge", "target": target, "other": other,
                            "soft": rng.random() < 0.5, "tokens": tokens,
                            "no_color": rng.random() < 0.85})
                if target:
                    cfg_files[target] = dict(cfg_files[target], **content)
            elif r < 0.45:
                if rng.random() < 0.5:
                    ops.append({"op": "reset_all", "answers": None})
                else:
                    ops.append({"op": "reset_all", "answers": [
                        rng.choice(["y", "n", "", "yes", "Y"])]})
            elif r < 0.56:
                ops.append({"op": "reset_subset",
                            "keys": rng.sample(keys, rng.randint(1, 5)),
                            "yes_flag": rng.random() < 0.35})
            elif r < 0.60:
                ops.append({"op": "show", "brief": rng.random() < 0.5,
                            "params": rng.sample(keys, rng.randint(0, 2))})
                if cfg_files and rng.random() < 0.3:
                    ops[-1]["target"] = rng.choice(sorted(cfg_files))
            elif r < 0.70:
                drop = [k for k in rng.sample(keys, rng.randint(1, 8))]
                obsolete = {}
                if rng.random() < 0.4:
                    obsolete["old_option_" + str(rng.randint(1, 3))] = (
                        rng.choice([True, 3, "x", [1, 2]]))
                ops.append({"op": "env_outdated",
                            "version": rng.choice(sg.OLD_VERSIONS),
                            "drop": drop, "obsolete": obsolete})
            elif r < 0.73:
                ops.append({"op": rng.choice(["env_delete_settings",
                                              "env_delete_dir"])})
            elif r < 0.86:
                app, sub, pos = rng.choice(APPS)
                alpha = self.alphabets[(app, sub)]
                argv, dests = alpha.gen_argv(rng, 6)
                out = None
                answers = []
                if rng.random() < 0.8:
                    if cfg_files and rng.random() < 0.25:
                        out = rng.choice(sorted(cfg_files))
                        answers = ["y"]
                    else:
                        out = f"{WORK}/gen_{nfile}.json"
                        nfile += 1
                    cfg_files[out] = {d: None for d in dests}
                ops.append({"op": "generate", "app": app, "sub": sub,
                            "positional": pos, "argv": argv, "out": out,
                            "answers": answers})
            elif r < 0.95:
                app, sub, pos = rng.choice(APPS)
                alpha = self.alphabets[(app, sub)]
                # a user-written config mixing CLI options and settings keys
                path = f"{WORK}/user_{nfile}.json"
                nfile += 1
                cargv, cdests = alpha.gen_argv(rng, 4)
                content = self._expected_namespace_values(alpha, cargv)
                for k in rng.sample(keys, rng.randint(0, 3)):
                    g = sg.gen_group(rng, k, dflt[k])
                    content[k] = sg.user_value(dflt[k], g[1:], k)
                if app in ("res", "traj") and rng.random() < 0.5:
                    # settings consumed by --save_table
                    for k in ("table_export_format", "table_export_transpose"):
                        if rng.random() < 0.7:
                            g = sg.gen_group(rng, k, dflt[k])
                            content[k] = sg.user_value(dflt[k], g[1:], k)
                if rng.random() < 0.08:
                    content[sg.RESERVED_KEY] = rng.choice([False, False, True])
                if rng.random() < 0.3:
                    # a key that is neither a setting nor an option; some are
                    # names the container has for other reasons (dict methods)
                    content[rng.choice(UNKNOWN_NAMES)] = rng.choice(
                        [1, "abc", False, [1, 2]])
                ops.append({"op": "env_write_config", "path": path,
                            "content": content})
                cfg_files[path] = dict(content)
                # CLI options, overlapping the config on purpose
                overlap = [d for d in cdests if rng.random() < 0.6]
                if overlap and rng.random() < 0.25:
                    # an explicit null: the config says "nothing" for an
                    # option the command line gives a value to
                    content[rng.choice(overlap)] = None
                cli, _ = alpha.gen_argv(rng, 4, exclude=[
                    d for d in cdests if d not in overlap])
                ops.append({"op": "run_c", "app": app, "sub": sub,
                            "positional": pos, "argv": cli, "config": path,
                            "fingerprint": rng.random() < 0.5})
            elif r < 0.962:
                # a whole run of a command with a -c config of settings keys,
                # against the same run with those values stored
                app = rng.choice(["res", "res", "res", "traj", "traj", "traj",
                                  "ape", "rpe"])
                plots = rng.random() < (0.5 if app in ("ape", "rpe") else 0.2)
                pool = APP_RUN_KEYS if rng.random() < 0.7 else keys
                overrides = {}
                for k in rng.sample(pool, rng.randint(1, 3)):
                    if k not in dflt:
                        continue
                    if k in APP_RUN_VALUES:
                        overrides[k] = rng.choice(APP_RUN_VALUES[k])
                        continue
                    g = sg.gen_group(rng, k, dflt[k])
                    overrides[k] = sg.user_value(dflt[k], g[1:], k)
                ops.append({"op": "app_run", "app": app, "plots": plots,
                            "overrides": overrides})
            else:
                k1, k2 = rng.sample(keys, 2)
                g1 = sg.gen_group(rng, k1, dflt[k1])
                g2 = sg.gen_group(rng, k2, dflt[k2])
                ops.append({"op": "lock",
                            "unknown": rng.choice(UNKNOWN_NAMES),
                            "known": k1,
                            "kv": sg.user_value(dflt[k1], g1[1:], k1),
                            "known2": k2,
                            "kv2": sg.user_value(dflt[k2], g2[1:], k2),
                            "md_a": sg.gen_other_config(rng, dflt),
                            "md_b": sg.gen_other_config(rng, dflt),
                            "md_soft": rng.random() < 0.5})
        for op in ops:
            if not op["op"].startswith("env_") and rng.random() < 0.2:
                op["display"] = True
        return {"kind": "history", "seed": rng.getrandbits(32), "init": init,
                "ops": ops}

    def _gen_tokens(self, rng, tkeys, tmodel, max_groups=4):
        tokens = []
        # the container's lock flag may be present in a file, a parameter to
        # set it is not
        names = [k for k in tkeys if k != sg.RESERVED_KEY] or list(tkeys)
        for _ in range(rng.randint(1, max_groups)):
            k = rng.choice(names)
            v = tmodel.get(k)
            if v is None and k not in self.dflt:
                g = [k, rng.choice(["abc", "2", "0.5", "xz"])]
            else:
                g = sg.gen_group(rng, k, v if v is not None else self.dflt[k],
                                 allow_negative=rng.random() < 0.25)
            # values never spell a key of the target
            g = [g[0]] + [t if t not in tkeys else t + "_" for t in g[1:]]
            tokens += g
        if rng.random() < 0.2:
            # a boolean named again later in the same command: the second
            # mention acts on what the first one left
            bools = [t for t in tokens if t in tkeys and isinstance(
                tmodel.get(t, self.dflt.get(t)), bool)]
            if bools:
                k = rng.choice(bools)
                tokens += [k] + ([] if rng.random() < 0.6 else
                                 [rng.choice(["true", "false"])])
        return tokens

    @staticmethod
    def _expected_namespace_values(alpha, argv):
        """values a user would write into a JSON config for these options"""
        out = {}
        by_opt = {o["opt"]: o for o in alpha.options}
        flat = []
        for t in argv:
            if t.startswith("--") and "=" in t and t.split("=", 1)[0] in by_opt:
                flat += t.split("=", 1)
            else:
                flat.append(t)
        argv = flat
        i = 0
        while i < len(argv):
            o = by_opt[argv[i]]
            if o["kind"] == "flag":
                out[o["dest"]] = True
                i += 1
                continue
            vals = argv[i + 1:i + 1 + o["n"]]
            i += 1 + o["n"]
            if o["kind"] == "int":
                vals = [int(v) for v in vals]
            elif o["kind"] == "float":
                vals = [float(v) for v in vals]
            out[o["dest"]] = vals if o["n"] > 1 else vals[0]
        return out

    # ------------------------------------------------------------ execution
    def execute(self, case) -> RunResult:
        sim = vproc.Sim(seed=case.get("seed", 0), step_cap=200000)
        sg.apply_initial_state(sim.fs, case["init"])
        sim.configure(policy=("random", ), sched_seed=0)
        model = Model(self.dflt, self.version)
        model.load_initial(case["init"])
        res = RunResult()
        trail = []
        violation = None
        known = None
        changed_any = False
        for oi, op in enumerate(case["ops"]):
            before = digest_of(sorted(sim.fs.snapshot().items()))
            # the environment of the processes of this operation (a desktop
            # session has DISPLAY, cron / ssh / a container has not)
            self._cur_env = {"DISPLAY": ":0"} if op.get("display") else {}
            if op.get("display"):
                sim.probe("process_with_display")
            try:
                violation = self._do_op(sim, model, op, res)
            except HarnessError:
                raise
            if sim.harness_error:
                raise HarnessError(sim.harness_error)
            after = digest_of(sorted(sim.fs.snapshot().items()))
            changed_any = changed_any or before != after
            trail.append([op["op"], after])
            if violation is not None:
                violation["detail"]["op_index"] = oi
                violation["detail"]["op"] = op
                if violation["sig"] in self.open_sigs:
                    # a recorded finding: note it and go on with the history
                    known = known or violation
                    violation = None
                    continue
                break
        res.violation = violation or known
        res.digest = digest_of([trail, violation["sig"] if violation else 0])
        res.steps = sim.step
        res.sim_time = sim.now
        res.stats.update(sim.counters)
        res.stats["ops"] += len(trail)
        for t in trail:
            res.stats["op." + t[0]] += 1
        if changed_any:
            res.nontrivial_key = res.digest
        res.aux["disk_states"] = [t[1] for t in trail]
        return res

    # -- helpers
    def _run(self, sim, cmds):
        env = getattr(self, "_cur_env", None)
        if env:
            cmds = [dict(c, env=env) if c.get("cmd") != "env" else c
                    for c in cmds]
        vps = sim.run([cmds])
        if sim.hang:
            raise HarnessError("step cap exceeded in a fault-free history")
        return vps[0].results

    def _fail(self, kind, what, **detail):
        return {"class": kind, "sig": f"C18:{kind}:{what}",
                "detail": dict(detail, what=what)}

    def _check_process(self, kind, results):
        for r in results:
            if r.get("exc") == "SimUnsupported":
                raise HarnessError("unsupported seam")
            if not r["ok"]:
                return self._fail(
                    kind, "process-failed", exception=r["exc"],
                    stdout_tail=(r.get("stdout_tail") or "")[-300:])
        return None

    def _disk_settings(self, sim):
        raw = sim.fs.read_bytes(SETTINGS_PATH)
        if raw is None:
            return None
        try:
            return json.loads(raw)
        except ValueError:
            return "<undecodable>"

    def _compare_disk(self, sim, model, kind, named=None, target=None):
        """settings.json and every tracked config file vs. the model"""
        actual = self._disk_settings(sim)
        if model.settings is None:
            if actual is not None:
                return self._fail(kind, "settings-appeared")
        else:
            if actual is None:
                return self._fail(kind, "settings-missing")
            diffs = compare(actual, model.settings,
                            named if target is None else [])
            if diffs:
                what, key, exp, act = diffs[0]
                return self._fail(kind, what, file="settings.json", key=key,
                                  expected=exp, actual=act,
                                  all=[list(d) for d in diffs[:6]])
        for path, m in model.files.items():
            raw = sim.fs.read_bytes(path)
            if raw is None:
                return self._fail(kind, "config-file-missing", file=path)
            try:
                act = json.loads(raw)
            except ValueError:
                return self._fail(kind, "config-file-undecodable", file=path)
            diffs = compare(act, m, named if target == path else [])
            if diffs:
                what, key, exp, actv = diffs[0]
                return self._fail(kind, what, file=path, key=key,
                                  expected=exp, actual=actv,
                                  all=[list(d) for d in diffs[:6]])
        ver = sim.fs.read_bytes(VERSION_PATH)
        if model.version is not None and (
                ver is None or ver.decode("latin-1") != model.version):
            return self._fail(kind, "version-file", expected=model.version,
                              actual=None if ver is None else ver.decode(
                                  "latin-1"))
        return None

    def _start_events(self, sim, model, res):
        ev = model.start()
        for e in ev:
            sim.probe(e)
        self._resolve_env_defaults(sim, model)
        return ev

    def _resolve_env_defaults(self, sim, model):
        """an environment-dependent default that was just assigned: take the
        variant the process wrote, if it is one of the admissible ones"""
        if model.settings is None:
            return
        actual = self._disk_settings(sim)
        if not isinstance(actual, dict):
            return
        for k in ENV_DEFAULTS:
            mv = model.settings.get(k)
            if isinstance(mv, Alt) and k in actual and any(
                    same(o, actual[k]) for o in mv.options):
                model.settings[k] = actual[k]

    def _do_op(self, sim, model, op, res):
        kind = op["op"]
        fs = sim.fs
        dflt = self.dflt
        nc = ["--no_color"] if op.get("no_color", True) else []
        if kind == "env_outdated":
            if model.settings is None:
                return None
            s = plain_dict(model.settings)
            for k in op["drop"]:
                s.pop(k, None)
            s.update(op["obsolete"])
            model.settings = s
            model.version = op["version"]
            if model.version == model.cur_version:
                model.version = "v0.0.1"
            fs.write_bytes(SETTINGS_PATH, sg.dumps(s).encode())
            fs.write_bytes(VERSION_PATH, model.version.encode())
            return None
        if kind == "env_delete_settings":
            if fs.lookup(SETTINGS_PATH) is not None:
                del fs.ents[SETTINGS_PATH]
            model.settings = None
            return None
        if kind == "env_delete_dir":
            fs.remove_tree(EVO_DIR)
            model.settings = None
            model.version = None
            model.dir = False
            return None
        if kind == "env_write_config":
            fs.make_dirs(WORK)
            fs.write_bytes(op["path"], sg.dumps(op["content"]).encode())
            model.files[op["path"]] = copy.deepcopy(op["content"])
            return None

        # everything below is one or more evo processes
        if kind == "set":
            target = op["target"]
            if target is not None and target not in model.files:
                return None
            argv = ["set"] + nc + (["-c", target] if target else []) + list(
                op["tokens"])
            if target is None and op.get("alias"):
                argv = ["set"] + nc + ["-c", op["alias"]] + list(op["tokens"])
                sim.probe("set_via_settings_alias")
            results = self._run(sim, [{"cmd": "config", "argv": argv}])
            self._start_events(sim, model, res)
            tm = model.settings if target is None else model.files[target]
            before = plain_dict(tm)
            named = model_set(tm, op["tokens"])
            for key, values in split_groups(op["tokens"], set(before)):
                b = before[key]
                if isinstance(b, bool):
                    sim.probe("set_bool_explicit" if values else
                              "set_bool_toggle")
                elif isinstance(b, list):
                    sim.probe("set_list")
                elif values and isinstance(conv(values[0]), (int, float)):
                    sim.probe("set_number")
            if target is not None:
                sim.probe("set_on_config_file")
            v = self._check_process("set", results)
            return v or self._compare_disk(sim, model, "set", named, target)

        if kind == "merge":
            target = op["target"]
            if target is not None and target not in model.files:
                return None
            if op["other"] not in model.files:
                return None
            argv = ["set"] + nc + (["-c", target] if target else []) + [
                "-m", op["other"]
            ] + (["--soft"] if op["soft"] else []) + list(op["tokens"])
            results = self._run(sim, [{"cmd": "config", "argv": argv}])
            self._start_events(sim, model, res)
            tm = model.settings if target is None else model.files[target]
            named = model_set(tm, op["tokens"])
            other = model.files[op["other"]]
            for k, v in other.items():
                if k == sg.RESERVED_KEY:
                    sim.probe("merge_file_with_lock_flag")
                    continue
                if k in tm:
                    if op["soft"]:
                        if not same(_plain(tm[k]), v):
                            sim.probe("merge_soft_kept_existing")
                    else:
                        if not same(_plain(tm[k]), v):
                            sim.probe("merge_hard_overwrote")
                        tm[k] = copy.deepcopy(v)
                else:
                    tm[k] = copy.deepcopy(v)
                    sim.probe("merge_added_keys")
            v = self._check_process("merge", results)
            return v or self._compare_disk(sim, model, "merge", None, target)

        if kind == "reset_all":
            if op["answers"] is None:
                argv, answers = ["reset", "-y"] + nc, []
            else:
                argv, answers = ["reset"] + nc, op["answers"]
            results = self._run(sim, [{"cmd": "config", "argv": argv,
                                       "answers": answers}])
            self._start_events(sim, model, res)
            if op["answers"] is None or answers == ["y"]:
                old = plain_dict(model.settings)
                model.settings = {k: model.D(k) for k in dflt}
                # obsolete keys may be kept (with their values) or dropped
                actual = self._disk_settings(sim)
                if isinstance(actual, dict):
                    for k, v in old.items():
                        if k not in dflt and k in actual and same(
                                actual[k], v):
                            model.settings[k] = v
            else:
                sim.probe("reset_declined")
            v = self._check_process("reset_all", results)
            return v or self._compare_disk(sim, model, "reset_all")

        if kind == "reset_subset":
            # "-y" (never ask) is harmless with parameter names: a script
            # may pass it always
            argv = ["reset"] + (["-y"] if op.get("yes_flag") else []) + nc + \
                list(op["keys"])
            if op.get("yes_flag"):
                sim.probe("reset_subset_with_yes_flag")
            results = self._run(sim, [{"cmd": "config", "argv": argv}])
            self._start_events(sim, model, res)
            for k in op["keys"]:
                if k in dflt:
                    if not same(_plain(model.settings.get(k)), dflt[k]):
                        sim.probe("reset_subset_restored_changed_value")
                    model.settings[k] = model.D(k)
            v = self._check_process("reset_subset", results)
            return v or self._compare_disk(sim, model, "reset_subset",
                                           op["keys"])

        if kind == "show":
            argv = ["show"] + nc + (["--brief"] if op["brief"] else
                                    []) + list(op.get("params", ()))
            if op.get("target") and op["target"] in model.files:
                argv = ["show"] + nc + ["-c", op["target"]] + (
                    ["--brief"] if op["brief"] else [])
            results = self._run(sim, [{"cmd": "config", "argv": argv}])
            self._start_events(sim, model, res)
            v = self._check_process("show", results)
            return v or self._compare_disk(sim, model, "show", [])

        if kind == "generate":
            return self._op_generate(sim, model, op, res, nc)
        if kind == "run_c":
            return self._op_run_c(sim, model, op, res)
        if kind == "lock":
            return self._op_lock(sim, model, op, res)
        if kind == "app_run":
            # make sure initialisation / upgrade have happened (as any start
            # does) before the two runs are compared
            results = self._run(sim, [{"cmd": "start"}])
            self._start_events(sim, model, res)
            v = self._check_process("app_run", results)
            if v:
                return v
            v = self._override_differential(sim, model, "app_run", op["app"],
                                            op["overrides"], op["plots"])
            return v or self._compare_disk(sim, model, "app_run", [])
        raise HarnessError(f"unknown op {kind}")

    # -- generate / -c equivalence
    def _op_generate(self, sim, model, op, res, nc):
        alpha = self.alphabets[(op["app"], op["sub"])]
        pos = ([op["sub"]] if op["sub"] else []) + list(op["positional"])
        out = op["out"]
        tmp_out = out or f"{WORK}/.generated_tmp.json"
        sim.fs.make_dirs(WORK)
        existed = sim.fs.lookup(tmp_out) is not None
        if existed and out is not None:
            sim.probe("generate_overwrite_prompt")
        answers = list(op.get("answers") or [])
        if existed and not answers:
            answers = ["y"]
        cmds = [
            {"cmd": "config",
             "argv": ["generate"] + nc + ["-o", tmp_out] + list(op["argv"]),
             "answers": answers},
            {"cmd": "parse", "app": op["app"],
             "argv": pos + ["-c", tmp_out]},
            {"cmd": "parse", "app": op["app"], "argv": pos + list(op["argv"])},
        ]
        results = self._run(sim, cmds)
        self._start_events(sim, model, res)
        if len(results) == 3 and results[2].get("exit") == 2:
            raise HarnessError("generated argument list is rejected by the "
                               "real parser: " + str(op["argv"]) + " " +
                               str(results[2]["exc"]))
        v = self._check_process("generate", results)
        if v:
            return v
        via_cfg = results[1]["namespace"]
        direct = results[2]["namespace"]
        by_dest = {o["dest"]: o for o in alpha.options}
        for o in alpha.options:
            if o["opt"] in op["argv"] or any(
                    t.startswith(o["opt"] + "=") for t in op["argv"]):
                if o["kind"] == "int":
                    sim.probe("generate_int_option")
                if o["n"] > 1:
                    sim.probe("generate_multi_value")
        if any(t.startswith("-") and not t.startswith("--")
               for t in op["argv"]):
            sim.probe("generate_negative_number")
        if any(t.startswith("--") and "=" in t for t in op["argv"]):
            sim.probe("generate_equals_form")
        for k in sorted(set(direct) | set(via_cfg)):
            if k == "config":
                continue
            if k not in direct:
                return self._fail("generate", "extra-destination", key=k,
                                  value=via_cfg[k])
            if k not in via_cfg:
                return self._fail("generate", "missing-destination", key=k)
            d, c = direct[k], via_cfg[k]
            if not same(d, c):
                return self._fail("generate", "value-differs", key=k,
                                  direct=d, via_config=c,
                                  argv=op["argv"])
            # an integer where argparse yields an int
            if self._int_where(d) and not self._int_where(c):
                return self._fail("generate", "int-became-float", key=k,
                                  direct=d, via_config=c, argv=op["argv"])
        # the generated file is a config file from now on
        raw = sim.fs.read_bytes(tmp_out)
        if out is not None:
            try:
                model.files[out] = json.loads(raw)
            except (TypeError, ValueError):
                return self._fail("generate", "output-undecodable", file=out)
        else:
            if sim.fs.lookup(tmp_out) is not None:
                del sim.fs.ents[tmp_out]
        return self._compare_disk(sim, model, "generate", [])

    @staticmethod
    def _int_where(v):
        if isinstance(v, list):
            return [C18._int_where(x) for x in v]
        return isinstance(v, int) and not isinstance(v, bool)

    def _op_run_c(self, sim, model, op, res):
        if op["config"] not in model.files:
            return None
        cfg = plain_dict(model.files[op["config"]])
        pos = ([op["sub"]] if op["sub"] else []) + list(op["positional"])
        # the settings this run will see: durable ones, overridden by the
        # matching keys of the config file
        effective = dict(plain_dict(model.settings or self.dflt))
        if model.settings is None or model.version != model.cur_version:
            for k, v in self.dflt.items():
                effective.setdefault(k, v)
        effective.update({k: v for k, v in cfg.items() if k in effective})
        # (a process with DISPLAY may initialise plot_backend to a GUI
        # backend, which cannot be loaded in this headless sandbox)
        import_plot = sg.plot_import_safe(effective) and not op.get("display")
        cmds = [
            {"cmd": "parse", "app": op["app"], "import_plot": import_plot,
             "entry_order": True,
             "fingerprint": bool(op.get("fingerprint")) and (
                 model.settings is not None
                 and model.version == model.cur_version),
             "argv": pos + list(op["argv"]) + ["-c", op["config"]]},
            {"cmd": "parse", "app": op["app"], "argv": pos + list(op["argv"])},
            {"cmd": "start"},
        ]
        results = self._run(sim, cmds)
        self._start_events(sim, model, res)
        if len(results) >= 2 and results[1].get("exit") == 2:
            raise HarnessError("generated argument list is rejected by the "
                               "real parser: " + str(op["argv"]))
        v = self._check_process("run_c", results)
        if v:
            return v
        with_c, without = results[0]["namespace"], results[1]["namespace"]
        if results[0].get("accepts_unknown_after_merge"):
            return self._fail("run_c", "container-unlocked-by-config",
                              config_keys=sorted(cfg))
        if sg.RESERVED_KEY in cfg:
            sim.probe("run_c_config_with_lock_flag")
        for k, val in cfg.items():
            if k == sg.RESERVED_KEY:
                continue
            if k not in with_c or not same(with_c[k], val):
                return self._fail("run_c", "config-value-not-in-namespace",
                                  key=k, config=val,
                                  namespace=with_c.get(k, "<absent>"))
            if k in without and not same(without[k], val):
                sim.probe("run_c_overrode_cli")
        with_c = {k: v for k, v in with_c.items() if k != sg.RESERVED_KEY}
        for k, val in without.items():
            if k in cfg or k == "config":
                continue
            if k not in with_c or not same(with_c[k], val):
                return self._fail("run_c", "cli-value-lost", key=k,
                                  cli=val, namespace=with_c.get(k))
        # package settings: overridden in memory for that run only
        st = results[0]["settings"]
        ms = plain_dict(model.settings)
        for k in st:
            if k == "__locked__":
                continue
            if k not in ms:
                return self._fail("run_c", "unknown-key-in-settings", key=k)
            exp = cfg[k] if k in cfg else ms[k]
            if k in cfg and not same(cfg[k], ms[k]):
                sim.probe("run_c_overrode_settings")
            if not same(st[k], exp):
                return self._fail("run_c", "settings-override", key=k,
                                  expected=exp, actual=st[k])
        for k in ms:
            if k not in st:
                return self._fail("run_c", "settings-key-lost", key=k)
        # What evo.tools.plot configured when it was imported, and what the
        # loaded modules froze at import time, should be the overridden values
        # as well.  A mismatch is only a suspicion (a later step of run() could
        # re-apply the settings or pass them explicitly): it is confirmed, or
        # dropped, by whole runs of the command that write real outputs.
        suspicion = None
        rc = results[0].get("rc")
        if rc is not None:
            sim.probe("run_c_plot_import_checked")
            want = {
                "lines.linewidth": float(st["plot_linewidth"]),
                "legend.loc": st["plot_legend_loc"],
                "font.family": [st["plot_fontfamily"]],
                "text.usetex": st["plot_usetex"],
                "pgf.texsystem": st["plot_texsystem"],
                "backend": str(st["plot_backend"]).lower(),
            }
            rc = dict(rc, backend=str(rc["backend"]).lower())
            for k, v in want.items():
                if rc[k] != v and not (k == "lines.linewidth"
                                       and float(rc[k]) == v):
                    suspicion = {"matplotlib_rc": k, "expected": v,
                                 "actual": rc[k]}
                    break
        if suspicion is None:
            suspicion = self._fingerprint_suspicion(
                sim, model, op, pos, cfg, st, ms, import_plot, results[0])
        if suspicion is not None:
            sim.probe("run_c_suspicion")
            overrides = {k: v for k, v in cfg.items()
                         if k in ms and k in self.dflt}
            v = self._override_differential(sim, model, "run_c", op["app"],
                                            overrides, True)
            if v:
                v["detail"]["first_noticed_as"] = suspicion
                return v
            sim.probe("run_c_suspicion_not_confirmed_by_real_runs")
        # the next process sees the durable values again
        st2 = results[2]["settings"]
        for k, val in ms.items():
            if k not in st2 or not same(st2[k], val):
                return self._fail("run_c", "override-persisted", key=k,
                                  expected=val, actual=st2.get(k))
        return self._compare_disk(sim, model, "run_c", [])

    def _fingerprint_suspicion(self, sim, model, op, pos, cfg, st, ms,
                               import_plot, first):
        """'overrides matching package settings for that run': the run should
        be indistinguishable from one in which the overridden values are the
        stored ones.  Compares what the loaded evo modules froze at import
        time (argument defaults, plain globals) in the two processes; a
        difference is a suspicion, not a verdict (the frozen value may never
        be used)."""
        fp_a = first.get("fingerprint")
        if fp_a is None:
            return None
        orig = sim.fs.read_bytes(SETTINGS_PATH)
        if orig is None:
            return None
        stored = {k: v for k, v in st.items() if k != "__locked__"}
        sim.fs.write_bytes(SETTINGS_PATH, sg.dumps(stored).encode())
        try:
            results = self._run(sim, [
                {"cmd": "parse", "app": op["app"], "import_plot": import_plot,
                 "entry_order": True, "fingerprint": True,
                 "argv": pos + list(op["argv"])}])
        finally:
            sim.fs.write_bytes(SETTINGS_PATH, orig)
        if self._check_process("run_c", results):
            return None
        fp_b = results[0].get("fingerprint") or {}
        sim.probe("run_c_fingerprint_compared")
        overridden = sorted(k for k in cfg if k in ms and not same(cfg[k],
                                                                   ms[k]))
        if overridden:
            sim.probe("run_c_fingerprint_with_override")
        for k in sorted(set(fp_a) | set(fp_b)):
            if fp_a.get(k) != fp_b.get(k):
                return {"frozen_at_import": k, "with_override": fp_a.get(k),
                        "when_stored": fp_b.get(k)}
        return None

    # -- whole runs of a command on the simulated disk
    APP_ARGV = {
        "res": [f"{DATA}/r1.zip", f"{DATA}/r2.zip", "--save_table",
                f"{OUT}/table"],
        "traj": ["tum", f"{DATA}/a.txt", f"{DATA}/b.txt", "--save_table",
                 f"{OUT}/table"],
        "ape": ["tum", f"{DATA}/a.txt", f"{DATA}/b.txt", "--save_results",
                f"{OUT}/result.zip"],
        "rpe": ["tum", f"{DATA}/a.txt", f"{DATA}/b.txt", "--save_results",
                f"{OUT}/result.zip"],
    }

    def _real_run(self, sim, app, plots, config):
        fs = sim.fs
        fs.remove_tree(OUT)
        fs.make_dirs(OUT)
        for path, data in self.app_inputs.items():
            if fs.lookup(path) is None:
                fs.make_dirs(DATA)
                fs.write_bytes(path, data)
        argv = list(self.APP_ARGV[app]) + ["--no_warnings"]
        if plots:
            argv += ["--save_plot", f"{OUT}/plot.png"]
        if config:
            argv += ["-c", config]
        r = self._run(sim, [{"cmd": "app", "app": app, "argv": argv}])[0]
        outs = {}
        for path in sorted(fs.ents):
            if path.startswith(OUT + "/"):
                data = fs.read_bytes(path)
                if data is not None and path.endswith(".zip"):
                    # an archive carries the (simulated) time of its creation:
                    # compared member by member
                    import io
                    import zipfile
                    try:
                        with zipfile.ZipFile(io.BytesIO(data)) as z:
                            for name in sorted(z.namelist()):
                                outs[path[len(OUT) + 1:] + ":" + name] = (
                                    z.read(name))
                    except zipfile.BadZipFile:
                        outs[path[len(OUT) + 1:]] = data
                elif data is not None:
                    outs[path[len(OUT) + 1:]] = data
        fs.remove_tree(OUT)
        outcome = (r.get("exc_type") or (
            "exit %r" % (r.get("exit"), ) if r.get("exit") else None))
        return outcome, outs, r

    def _pair_differs(self, sim, app, plots, overrides, stored, orig):
        fs = sim.fs
        cfg_path = f"{DATA}/override.json"
        fs.write_bytes(cfg_path, sg.dumps(overrides).encode())
        try:
            out_a, files_a, _ = self._real_run(sim, app, plots, cfg_path)
            eff = dict(stored)
            eff.update({k: v for k, v in overrides.items()
                        if k in stored and k != sg.RESERVED_KEY})
            fs.write_bytes(SETTINGS_PATH, sg.dumps(eff).encode())
            out_b, files_b, _ = self._real_run(sim, app, plots, None)
        finally:
            fs.write_bytes(SETTINGS_PATH, orig)
            if fs.lookup(cfg_path) is not None:
                del fs.ents[cfg_path]
        return (out_a, files_a) != (out_b, files_b)

    def _override_differential(self, sim, model, kind, app, overrides, plots):
        """process A: the stored settings and a -c config holding `overrides`;
        process B: no -c, the overridden values are the stored ones.  Same
        command, same inputs: the outcome and every output file must be the
        same, byte for byte."""
        if model.settings is None or model.version != model.cur_version:
            return None
        fs = sim.fs
        orig = fs.read_bytes(SETTINGS_PATH)
        if orig is None:
            return None
        try:
            stored = json.loads(orig)
        except ValueError:
            return None
        if plots:
            eff = dict(stored)
            eff.update(overrides)
            if not (plot_run_affordable(stored) and plot_run_affordable(eff)):
                # e.g. a figure of 1e9 x 1e9 inches: rendering is out of reach
                sim.probe("real_run_skipped_unaffordable_plot_settings")
                plots = False
        cfg_path = f"{DATA}/override.json"
        fs.make_dirs(DATA)
        fs.write_bytes(cfg_path, sg.dumps(overrides).encode())
        try:
            out_a, files_a, ra = self._real_run(sim, app, plots, cfg_path)
            eff = dict(stored)
            eff.update({k: v for k, v in overrides.items()
                        if k in stored and k != sg.RESERVED_KEY})
            fs.write_bytes(SETTINGS_PATH, sg.dumps(eff).encode())
            out_b, files_b, rb = self._real_run(sim, app, plots, None)
            equal = (out_a, files_a) == (out_b, files_b)
            if not equal:
                # guard: is the command's output a function of its inputs?
                out_b2, files_b2, _ = self._real_run(sim, app, plots, None)
                if (out_b2, files_b2) != (out_b, files_b):
                    sim.probe("real_run_not_reproducible")
                    return None
        finally:
            fs.write_bytes(SETTINGS_PATH, orig)
            if fs.lookup(cfg_path) is not None:
                del fs.ents[cfg_path]
        sim.probe("real_run_pairs")
        if files_a:
            sim.probe("real_run_pairs_with_output")
        if any(k in stored and not same(stored[k], v)
               for k, v in overrides.items()):
            sim.probe("real_run_pairs_with_effective_override")
        if equal:
            return None
        # which of the overridden keys are responsible?  (greedy 1-minimal
        # subset that still shows a difference; identifies the finding)
        keys = sorted(overrides)
        # keys of recorded findings are tried first, so that a recorded one
        # does not absorb a new one present in the same set
        first = [k for k in keys if k in self.known_override_keys]
        for k in first + [k for k in keys if k not in first]:
            if len(keys) == 1:
                break
            trial = {x: overrides[x] for x in keys if x != k}
            if self._pair_differs(sim, app, plots, trial, stored, orig):
                keys.remove(k)
        what = "override-without-effect:" + "+".join(keys)
        diff = sorted(set(files_a) ^ set(files_b)) + sorted(
            k for k in set(files_a) & set(files_b)
            if files_a[k] != files_b[k])
        return self._fail(
            kind, what, app=app, responsible_keys=keys,
            overrides=overrides, outcome_with_override=out_a,
            outcome_when_stored=out_b, differing_outputs=diff[:6],
            sizes={k: [len(files_a.get(k, b"")), len(files_b.get(k, b""))]
                   for k in diff[:6]},
            exception_with_override=ra.get("exc"),
            exception_when_stored=rb.get("exc"))

    def _op_lock(self, sim, model, op, res):
        cmd = dict(op, cmd="lock")
        # a merge may legitimately have added this name to the package
        # settings (documented union): then it is not unknown any more
        known_now = set(model.settings or ()) | set(self.dflt)
        while cmd["unknown"] in known_now:
            cmd["unknown"] += "_x"
        op = cmd
        results = self._run(sim, [cmd, {"cmd": "start"}])
        self._start_events(sim, model, res)
        v = self._check_process("lock", results)
        if v:
            return v
        out = results[0]["lock"]
        st = results[0]["settings"]
        unknown = op["unknown"]
        if unknown in st or out["setattr_unknown"] != "refused":
            return self._fail("lock", "unknown-parameter-added", key=unknown,
                              outcome=out)
        sim.probe("lock_refused")
        if out["setattr_known"] != "accepted" or not same(
                st[op["known2"]], op["kv2"]):
            return self._fail("lock", "known-parameter-not-settable",
                              outcome=out)
        if out["getattr_unknown"] != "refused":
            return self._fail("lock", "unknown-parameter-readable",
                              outcome=out)
        if out["locked"] is not True or out["reloaded_locked"] is not True \
                or out["reloaded_accepts_unknown"]:
            return self._fail("lock", "container-not-locked", outcome={
                k: out[k] for k in ("locked", "reloaded_locked",
                                    "reloaded_accepts_unknown")})
        if not same(out["get_known"][0], op["kv"]) or not same(
                out["get_known"][1], op["kv"]):
            return self._fail("lock", "known-parameter-read-back",
                              expected=op["kv"], actual=list(out["get_known"]))
        if compare(out["reloaded"], dict(plain_dict(model.settings))):
            d = compare(out["reloaded"], dict(plain_dict(model.settings)))[0]
            return self._fail("lock", "from-json-file-differs-from-disk",
                              key=d[1], expected=d[2], actual=d[3])
        ma, mb = dict(op.get("md_a", {})), dict(op.get("md_b", {}))
        exp = dict(mb, **ma) if op.get("md_soft") else dict(ma, **mb)
        if not same(out["merge_dicts"], exp) or not out[
                "merge_dicts_second_unchanged"]:
            return self._fail("lock", "merge-dicts", expected=exp,
                              actual=out["merge_dicts"],
                              second_unchanged=out[
                                  "merge_dicts_second_unchanged"])
        extra = [k for k in st if k != "__locked__" and k not in
                 model.settings]
        if extra:
            return self._fail("lock", "unknown-parameter-added", key=extra[0])
        # in-memory changes are not durable
        st2 = results[1]["settings"]
        for k, val in plain_dict(model.settings).items():
            if k not in st2 or not same(st2[k], val):
                return self._fail("lock", "in-memory-change-persisted", key=k)
        return self._compare_disk(sim, model, "lock", [])

    # ---------------------------------------------------------- fixed cases
    def fixed_cases(self, tier):
        """a few classic short histories, instantiated with fixed data"""
        cur = {"state": "empty", "dirs": [], "files": {}}
        cases = []
        for app, sub, pos in APPS:
            alpha = self.alphabets[(app, sub)]
            for o in alpha.options:
                # every typed option alone, with each kind of value
                import random
                r = random.Random(hash_str(o["opt"] + app + str(sub)))
                for _ in range(2 if tier == "quick" else 6):
                    argv = alpha.gen_option(r, o)
                    cases.append({"kind": "schema", "seed": 1, "init": cur,
                                  "ops": [{"op": "generate", "app": app,
                                           "sub": sub, "positional": pos,
                                           "argv": argv, "out": None,
                                           "answers": []}]})
        for k in self.keys:
            import random
            r = random.Random(hash_str(k))
            g = sg.gen_group(r, k, self.dflt[k])
            cases.append({"kind": "schema", "seed": 2, "init": cur, "ops": [
                {"op": "set", "target": None, "tokens": g, "no_color": True},
                {"op": "env_outdated", "version": "v1.0", "drop": [k],
                 "obsolete": {}},
                {"op": "show", "brief": True, "params": []},
                {"op": "set", "target": None, "tokens": g, "no_color": True},
                {"op": "reset_subset", "keys": [k]},
            ]})
        # whole runs: each consumer of a per-run override once, by itself
        for app, plots, ov in (
                ("res", False, {"table_export_format": "json"}),
                ("res", False, {"table_export_transpose": False}),
                ("traj", False, {"table_export_format": "json",
                                 "table_export_transpose": False}),
                ("res", True, {"plot_linewidth": 4.0}),
                ("traj", True, {"plot_figsize": [4, 3]}),
                ("ape", True, {"plot_fontfamily": "serif"}),
                ("rpe", True, {"plot_seaborn_style": "whitegrid"}),
                ("ape", False, {"save_traj_in_zip": True}),
                ("rpe", False, {"save_traj_in_zip": True}),
                ("traj", True, {"plot_mode_default": "xy"}),
                ("ape", True, {"plot_mode_default": "xz"}),
        ):
            cases.append({"kind": "schema", "seed": 3, "init": cur, "ops": [
                {"op": "app_run", "app": app, "plots": plots,
                 "overrides": ov}]})
        return cases

    # ------------------------------------------------------------ shrinking
    def shrink_candidates(self, case):
        ops = case["ops"]
        n = len(ops)
        # drop the tail after the violating op is pointless: try prefixes
        for k in range(n - 1, 0, -1):
            pass
        # remove chunks, then single ops
        size = n // 2
        while size >= 1:
            for i in range(0, n, size):
                c = copy.deepcopy(case)
                del c["ops"][i:i + size]
                if c["ops"]:
                    yield c
            size //= 2
        if case["init"].get("state") != "empty":
            c = copy.deepcopy(case)
            c["init"] = {"state": "empty", "dirs": [], "files": {}}
            yield c
        # shrink token lists / argument lists
        for i, op in enumerate(ops):
            if op["op"] in ("set", "merge") and op.get("tokens"):
                groups = split_groups(op["tokens"], set(self.keys) | set(
                    op["tokens"][:1]))
                if len(groups) > 1:
                    for gi in range(len(groups)):
                        c = copy.deepcopy(case)
                        toks = []
                        for gj, (k, vals) in enumerate(groups):
                            if gj != gi:
                                toks += [k] + vals
                        c["ops"][i]["tokens"] = toks
                        yield c
            if op["op"] in ("generate", "run_c") and len(op["argv"]) > 1:
                alpha = self.alphabets[(op["app"], op["sub"])]
                opts = {o["opt"]: o for o in alpha.options}
                idx = [j for j, t in enumerate(op["argv"]) if t in opts]
                for a, j in enumerate(idx):
                    end = idx[a + 1] if a + 1 < len(idx) else len(op["argv"])
                    c = copy.deepcopy(case)
                    c["ops"][i]["argv"] = op["argv"][:j] + op["argv"][end:]
                    if c["ops"][i]["argv"]:
                        yield c

    def describe(self, case):
        out = []
        for op in case["ops"]:
            k = op["op"]
            if k == "set":
                out.append("evo_config set " + (
                    f"-c {op['target']} " if op["target"] else "") +
                           " ".join(op["tokens"]))
            elif k == "merge":
                out.append("evo_config set -m " + op["other"] +
                           (" --soft" if op["soft"] else "") + " " +
                           " ".join(op["tokens"]))
            elif k == "generate":
                out.append(f"evo_config generate {' '.join(op['argv'])} -o "
                           f"{op['out']}; evo_{op['app']} {op['sub']} ... -c")
            elif k == "run_c":
                out.append(f"evo_{op['app']} {op['sub']} ... "
                           f"{' '.join(op['argv'])} -c {op['config']}")
            elif k == "reset_subset":
                out.append("evo_config reset " + " ".join(op["keys"]))
            elif k == "env_outdated":
                out.append(f"[env] older evo {op['version']!r} installed, "
                           f"keys dropped: {op['drop']}")
            else:
                out.append(k + (" " + str(op.get("answers"))
                                if "answers" in op else ""))
        return {"init_state": case["init"].get("state"), "ops": out}


def hash_str(s):
    import hashlib
    return int.from_bytes(hashlib.sha256(s.encode()).digest()[:8], "big")


CHECK = C18()
