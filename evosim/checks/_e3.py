"""shared implementation of the two engine-E3 checks (C08, C16)"""
from __future__ import annotations

import copy
import random

import numpy as np

from ..core import Check, RunResult, digest_of, HarnessError
from .. import pool_ops
from ..pool_ops import MUTATORS, DERIVERS, gen_object_spec, run_history
from ..refmodel import random_unit_quat

_EVO = None


def evo_ns():
    global _EVO
    if _EVO is None:
        from .. import evons
        _EVO = evons.load()
    return _EVO


FIXED_T = [0.5, 0.5, -0.5, 0.5, 1.0, -2.0, 0.5]  # a 120 degree rotation + t


def mutator_step(name, obj, ref, uid):
    """a fixed instance of every mutator, for the schema histories"""
    base = {"uid": uid, "obj": obj}
    if name.startswith("transform"):
        return dict(base, op="transform", mode=name.split("_")[1], T=FIXED_T)
    if name == "scale":
        return dict(base, op="scale", s=2.5)
    if name == "reduce_to_ids":
        return dict(base, op="reduce_to_ids", ids=[0, 2, 3, 5])
    if name == "downsample":
        return dict(base, op="downsample", n=3)
    if name == "motion_filter":
        return dict(base, op="motion_filter", dist=0.3, angle=0.5, deg=False)
    if name == "time_range":
        return dict(base, op="time_range", lo=0.2, hi=0.8)
    if name == "align":
        return dict(base, op="align", ref=ref, scale=False, only_scale=False,
                    n=-1)
    if name == "align_sim3":
        return dict(base, op="align", ref=ref, scale=True, only_scale=False,
                    n=-1)
    if name == "align_scale":
        return dict(base, op="align", ref=ref, scale=False, only_scale=True,
                    n=-1)
    if name == "align_origin":
        return dict(base, op="align_origin", ref=ref)
    if name.startswith("project"):
        return dict(base, op="project", plane=name.split("_")[1])
    raise HarnessError(name)


SCHEMA_MUTATORS = ["transform_left", "transform_right", "transform_prop",
                   "scale", "reduce_to_ids", "downsample", "motion_filter",
                   "time_range", "align", "align_sim3", "align_scale",
                   "align_origin", "project_xy", "project_xz", "project_yz"]
SCHEMA_VIEWS = ["positions_xyz", "orientations_quat_wxyz", "poses_se3",
                "distances", "speeds", "check"]


class E3Check(Check):
    level = "exploration"
    quick_budget_s = 50.0
    thorough_budget_s = 840.0
    batch = 40
    mix = "c08"
    rule = (
        "seeded histories of 8-24 steps over a pool of <= 6 live evo objects "
        "(PosePath3D / PoseTrajectory3D built from pose matrices or from "
        "positions+quaternions, 1-64 poses, rotations uniform / near 0 / near "
        "pi / planar, translations 0.1-1000 m, stationary stretches, jumps, "
        "time gaps): mutators (transform left/right/propagating, scale, "
        "reduce_to_ids, downsample, motion_filter, time range, align se3/sim3/"
        "scale-only/n, align_origin, project), derivers (deepcopy, associate, "
        "split_time/distance/speed, merge, DataFrame / TUM / KITTI round "
        "trips), observers (every view, check, infos, ==, euler; APE/RPE, "
        "ape()/rpe(), pair selection, motion filter, time matching, Umeyama, "
        "writers, result merging, plots). After EVERY step EVERY pool object "
        "is probed (each view read first on its own deep copy, plus one copy "
        "read in a seeded order) and compared with its own longdouble model; "
        "non-receivers must be bit-for-bit unchanged. Fixed cases: 3/4-step "
        "schemas 'materialise X, mutate via Y, read Z, mutate again' and "
        "'derive by D, mutate the derived object by M, inspect the parent' "
        "for all X, Y, Z, D, M. A history is non-trivial if it contains a "
        "successful mutator and at least one observer or deriver step; "
        "distinct = distinct digest of (realised steps, final views).")
    assumptions = [
        "transform() is fed SE(3) matrices only; similarities are reached "
        "through align(correct_scale=True)",
        "conditioning budget: propagating transforms are not scheduled once "
        "they would push accumulated non-orthonormality above 1e-11 "
        "(float64 behaviour of a legitimate algorithm, not a defect)",
        "tolerances: positions 1e-9*max(1,|p|max), rotations 1e-9 Frobenius, "
        "timestamps bit-equal",
        "selection ops (downsample, motion_filter, splits, associate) are "
        "checked as order-preserving subsequences, which poses are selected "
        "is another property's business",
        "no fault dimension: the property speaks about the state after "
        "operations, not after aborted ones",
    ]
    components = {
        "real": [
            "evo/core/trajectory.py", "evo/core/sync.py",
            "evo/core/filters.py", "evo/core/geometry.py",
            "evo/core/lie_algebra.py", "evo/core/transformations.py",
            "evo/core/metrics.py", "evo/core/result.py",
            "evo/tools/pandas_bridge.py", "evo/tools/file_interface.py "
            "(handle variants)", "evo/main_ape.py:ape", "evo/main_rpe.py:rpe",
            "evo/tools/plot.py (Agg)"
        ],
        "stub": [],
    }
    required_probes = (
        "built_from_se3", "built_from_xyz_quat",
        "op_after_only_xyz_quat_cached", "op_after_only_se3_cached",
        "read_materialised_cache", "derived_object_mutated",
        "parent_mutated_with_live_parts", "refusal_project", "refusal_align",
        "split_made_parts", "transform_left",
        "transform_right", "transform_prop", "align_se3", "align_sim3",
        "project_with_cached_positions", "compute_ape", "compute_rpe",
        "compute_main_ape", "compute_merge_results",
        "compute_umeyama_contiguous", "compute_lie", "compute_plot",
        "time_range_absolute_bounds", "compute_plot_optional_args",
        "built_from_all_three", "align_checked_against_independent_umeyama",
        "built_from_pose_ndarray", "merge_with_shared_stamps",
        "transform_left_with_propagate_flag",
    )
    # reached reliably only by one of the two operation mixes
    C16_ONLY_PROBES = ("merge_of_dict_view", "compute_plot_result",
                       "second_object_from_same_pose_list")
    C08_ONLY_PROBES = ("text_precision_input_accepted_by_check", )

    def setup_worker(self):
        evo_ns()
        import logging
        logging.getLogger("evo").setLevel(logging.CRITICAL)

    # ----------------------------------------------------------- generation
    def make_case(self, rng, tier, index):
        if self.prop == "C08" and rng.random() < 0.03:
            return gen_text_precision_case(rng)
        nobj = rng.choice([1, 2, 2, 3])
        big = tier == "thorough" and rng.random() < 0.3
        objs = [gen_object_spec(rng, small=not big) for _ in range(nobj)]
        if rng.random() < (0.05 if tier == "thorough" else 0.02):
            objs[0]["n"] = rng.randint(65, 200)  # the quantifier's upper end
        if rng.random() < 0.05:
            # all objects of the case geo-referenced: UTM- or ECEF-sized
            # coordinates, an extent of metres
            off = rng.choice([[5.0e5, 5.4e6, 300.0], [4.1e6, 6.2e5, 4.8e6]])
            sc = rng.choice([1.0, 5.0])
            for o in objs:
                o["profile"]["offset"] = off
                o["profile"]["scale"] = sc
        # make equal-length companions likely (align / APE need them)
        for k in range(1, nobj):
            if rng.random() < 0.6:
                objs[k]["n"] = objs[0]["n"]
                if rng.random() < 0.7:
                    objs[k]["stamped"] = objs[0]["stamped"]
                    objs[k]["profile"]["t0"] = objs[0]["profile"]["t0"]
                    objs[k]["profile"]["dt"] = objs[0]["profile"]["dt"]
                    objs[k]["profile"]["gap"] = 0.0
                    if rng.random() < 0.5:
                        # same time base -> associations succeed
                        objs[k]["ts_like"] = 0
        case = {"kind": "random", "mix": self.mix, "objects": objs,
                "steps": None, "step_seed": rng.getrandbits(32),
                "nsteps": rng.randint(8, 24)}
        if rng.random() < 0.2:
            case["debug_log"] = True
        return case

    # ------------------------------------------------------------ execution
    def execute(self, case) -> RunResult:
        evo = evo_ns()
        import contextlib
        import io
        if case.get("kind") == "text_precision":
            with contextlib.redirect_stdout(io.StringIO()):
                return run_text_precision(evo, case, self)
        import logging
        lg, handler = logging.getLogger("evo"), None
        if case.get("debug_log"):
            # as with --logfile / -v / global_logfile_enabled: DEBUG records
            # of evo's loggers are formatted (lazy %s arguments are str()ed,
            # which may read - and cache - properties of the objects)
            handler = logging.StreamHandler(io.StringIO())
            handler.setLevel(logging.DEBUG)
            lg.addHandler(handler)
            lg.setLevel(logging.DEBUG)
        try:
            with contextlib.redirect_stdout(io.StringIO()):  # progress prints
                violation, steps, m = run_history(evo, case, self.prop)
        finally:
            if handler is not None:
                lg.removeHandler(handler)
                lg.setLevel(logging.CRITICAL)
        res = RunResult()
        finals = []
        for uid, e in sorted(m.entries.items()):
            p = e.probe
            if p is None:
                continue
            finals.append([uid, p.n, digest_of([
                p.pos.tobytes() if p.pos is not None else b"",
                p.quat.tobytes() if p.quat is not None else b"",
                p.poses.tobytes() if p.poses is not None else b"",
                p.ts.tobytes() if p.ts is not None else b""])])
        res.digest = digest_of([steps, finals,
                                violation["sig"] if violation else None])
        res.steps = len(steps)
        for k, v in m.counters.items():
            res.stats[k] += v
        ops = [s["op"] for s in steps]
        muts = [s for s in steps if s["op"] in MUTATORS]
        for s in muts:
            e = m.resolve(s["obj"])
            if e is not None and isinstance(e.origin, tuple):
                res.stats["probe.derived_object_mutated"] += 1
            kids = [x for x in m.entries.values()
                    if isinstance(x.origin, tuple) and x.origin[1] == s["obj"]]
            if kids:
                res.stats["probe.parent_mutated_with_live_parts"] += 1
        if muts and any(o in ("read", "compute") or o in DERIVERS
                        for o in ops):
            res.nontrivial_key = res.digest
        res.aux["final_states"] = [f[2] for f in finals]
        res.aux["op_sequences"] = [digest_of(ops)]
        if violation is not None:
            if violation["class"] == self.prop:
                violation["realised_steps"] = steps
                res.violation = violation
            else:
                res.stats["violations_of_other_property_seen"] += 1
        return res

    # ---------------------------------------------------------- fixed cases
    def fixed_cases(self, tier):
        cases = []
        prof = {"scale": 1.0, "rot": "uniform", "stationary": 0.1,
                "jump": 0.1, "gap": 0.1, "t0": 100.0, "dt": 0.1}
        seeds = [11] if tier == "quick" else [11, 23, 37]
        for seed in seeds:
            for ctor in ("se3", "xyzquat"):
                for stamped in (True, False):
                    A = {"ctor": ctor, "stamped": stamped, "n": 8,
                         "data_seed": seed, "profile": prof}
                    B = {"ctor": "xyzquat", "stamped": stamped, "n": 8,
                         "data_seed": seed + 1, "profile": prof}
                    # materialise X, mutate via Y, read Z, mutate again
                    for X in [None] + SCHEMA_VIEWS:
                        for Y in SCHEMA_MUTATORS:
                            if Y == "time_range" and not stamped:
                                continue
                            for Z in SCHEMA_VIEWS[:4]:
                                steps = []
                                if X:
                                    steps.append({"op": "read", "uid": "s0",
                                                  "obj": "o0", "view": X})
                                steps.append(mutator_step(Y, "o0", "o1", "s1"))
                                steps.append({"op": "read", "uid": "s2",
                                              "obj": "o0", "view": Z})
                                steps.append({"op": "scale", "uid": "s3",
                                              "obj": "o0", "s": 0.5})
                                cases.append({"kind": "schema_xyz",
                                              "mix": self.mix,
                                              "objects": [A, B],
                                              "steps": steps})
                    # derive by D, mutate the derived object by M (and the
                    # parent by M), inspect both
                    for D in DERIVERS:
                        for M in SCHEMA_MUTATORS:
                            for target in ("derived", "parent"):
                                if D in ("associate", "split_time",
                                         "split_speed", "merge",
                                         "tum_roundtrip") and not stamped:
                                    continue
                                d = {"op": D, "uid": "s0", "obj": "o0"}
                                if D == "associate":
                                    d.update(other="o1", max_diff=1e9,
                                             offset=0.0)
                                elif D == "split_time":
                                    d["thr"] = 0.15
                                elif D == "split_dist":
                                    d["thr"] = 1.0
                                elif D == "split_speed":
                                    d["thr"] = 5.0
                                elif D == "merge":
                                    d = {"op": "merge", "uid": "s0",
                                         "objs": ["o0"]}
                                tgt = "s0.0" if target == "derived" else "o0"
                                steps = [
                                    {"op": "read", "uid": "r0", "obj": "o0",
                                     "view": "positions_xyz"}, d,
                                    mutator_step(M, tgt, "o1", "s1"),
                                    {"op": "read", "uid": "s2", "obj": "o0",
                                     "view": "poses_se3"},
                                ]
                                cases.append({"kind": "schema_derive",
                                              "mix": self.mix,
                                              "objects": [A, B],
                                              "steps": steps})
        # every ordered pair of mutators, with a view materialised in between
        for seed in seeds:
            for ctor in ("se3", "xyzquat", "all"):
                A = {"ctor": ctor, "stamped": True, "n": 8,
                     "data_seed": seed + 3, "profile": prof}
                B = {"ctor": "xyzquat", "stamped": True, "n": 8,
                     "data_seed": seed + 4, "profile": prof}
                for i1, M1 in enumerate(SCHEMA_MUTATORS):
                    for i2, M2 in enumerate(SCHEMA_MUTATORS):
                        if tier == "quick" and (i1 + i2 + seed) % 2:
                            continue
                        view = SCHEMA_VIEWS[(i1 * 7 + i2) % 4]
                        steps = [mutator_step(M1, "o0", "o1", "s0"),
                                 {"op": "read", "uid": "r0", "obj": "o0",
                                  "view": view},
                                 mutator_step(M2, "o0", "o1", "s1"),
                                 {"op": "deepcopy", "uid": "d0", "obj": "o0"}]
                        cases.append({"kind": "schema_pair", "mix": self.mix,
                                      "objects": [A, B], "steps": steps})
        # two windows of one trajectory that share their boundary stamp, merged
        for seed in seeds:
            A = {"ctor": "xyzquat", "stamped": True, "n": 9,
                 "data_seed": seed + 9, "profile": dict(prof, gap=0.0)}
            for k in (2, 4, 6):
                for pre in (None, "poses_se3"):
                    steps = [{"op": "deepcopy", "uid": "d0", "obj": "o0"},
                             {"op": "deepcopy", "uid": "d1", "obj": "o0"},
                             {"op": "time_range", "uid": "t0", "obj": "d0.0",
                              "lo": None, "hi": None, "abs": [None, [k]]},
                             {"op": "time_range", "uid": "t1", "obj": "d1.0",
                              "lo": None, "hi": None, "abs": [[k], None]}]
                    if pre:
                        steps.append({"op": "read", "uid": "r0",
                                      "obj": "d1.0", "view": pre})
                    steps.append({"op": "merge", "uid": "mg",
                                  "objs": ["d0.0", "d1.0"]})
                    steps.append({"op": "read", "uid": "r1", "obj": "d1.0",
                                  "view": "timestamps"})
                    cases.append({"kind": "schema_windows", "mix": self.mix,
                                  "objects": [A], "steps": steps})
        # results that carry trajectories: merge two of them, mutate the
        # merged result's trajectories by every mutator, inspect the inputs
        for seed in seeds:
            A = {"ctor": "xyzquat", "stamped": True, "n": 8,
                 "data_seed": seed + 5, "profile": prof}
            B = {"ctor": "se3", "stamped": True, "n": 8,
                 "data_seed": seed + 5, "profile": dict(prof, scale=1.01)}
            for M in SCHEMA_MUTATORS:
                for tgt in ("mr.0", "mr.1"):
                    for pre in (None, "positions_xyz", "poses_se3"):
                        steps = [
                            {"op": "compute", "uid": "c0", "what": "main_ape",
                             "a": "o0", "b": "o1", "rel": "trans"},
                            {"op": "compute", "uid": "c1", "what": "main_ape",
                             "a": "o0", "b": "o1", "rel": "rot"},
                            {"op": "compute", "uid": "mr",
                             "what": "merge_results", "a": "o0",
                             "results": ["c0", "c1"]},
                        ]
                        if pre:
                            steps.append({"op": "read", "uid": "r0",
                                          "obj": tgt, "view": pre})
                        steps.append(mutator_step(M, tgt, "o0", "s1"))
                        steps.append({"op": "read", "uid": "r1", "obj": "o0",
                                      "view": "poses_se3"})
                        cases.append({"kind": "schema_result",
                                      "mix": self.mix, "objects": [A, B],
                                      "steps": steps})
        if self.prop == "C08":
            # index arrays of every integer width on objects long enough for
            # narrow types to matter (arange(..., dtype=uint8) and friends)
            for n, ids, dts in (
                    (200, [0, 40, 80, 120, 160, 199], ("uint8", "int16",
                                                       "uint16", "int32")),
                    (100, [0, 30, 60, 90, 99], ("int8", "uint8")),
                    (130, [0, 1, 64, 127], ("int8", ))):
                for dt in dts:
                    for ctor in ("se3", "xyzquat"):
                        A = {"ctor": ctor, "stamped": True, "n": n,
                             "data_seed": 5, "profile": dict(prof, gap=0.0,
                                                             jump=0.0)}
                        cases.append({
                            "kind": "schema_ids", "mix": self.mix,
                            "objects": [A],
                            "steps": [
                                {"op": "read", "uid": "s0", "obj": "o0",
                                 "view": "positions_xyz"},
                                {"op": "reduce_to_ids", "uid": "s1",
                                 "obj": "o0", "ids": ids,
                                 "ids_kind": "ndarray", "ids_dtype": dt},
                                {"op": "read", "uid": "s2", "obj": "o0",
                                 "view": "poses_se3"}]})
            import random
            r = random.Random(808)
            for _ in range(6 if tier == "quick" else 30):
                cases.append(gen_text_precision_case(r))
            # exactly built poses and several propagating transforms in one
            # history (inside the quantifier: 200 poses, ~15 operations)
            for n, k in ((200, 6), (100, 7), (50, 8), (200, 3)):
                c = gen_text_precision_case(r)
                c["n"], c["dtype"] = n, "exact"
                c["ops"] = [{"op": "transform", "mode": "prop",
                             "T": [float(x) for x in random_unit_quat(
                                 r, "uniform" if i % 2 else "identity")] +
                             [r.gauss(0, 3.0) for _ in range(3)]}
                            for i in range(k)]
                cases.append(c)
            # text-precision matrices, one propagating transform with a
            # general rigid motion
            for n in (100, 150, 200, 200):
                c = gen_text_precision_case(r)
                c["n"], c["dtype"] = n, "text"
                c["ops"] = [{"op": "transform", "mode": "prop",
                             "T": [float(x) for x in random_unit_quat(
                                 r, "uniform")] + [r.gauss(0, 5.0)
                                                   for _ in range(3)]}]
                cases.append(c)
            for mode in ("prop", "right", "left"):
                for n in (60, 200):
                    c = gen_text_precision_case(r)
                    c["n"] = n
                    c["ops"] = [{"op": "transform", "mode": mode,
                                 "T": c["ops"][0].get("T") or
                                 [1.0, 0.0, 0.0, 0.0, 0.0, 0.0, 0.0]}]
                    cases.append(c)
        return cases

    # ------------------------------------------------------------ shrinking
    def shrink_candidates(self, case):
        if case.get("kind") == "text_precision":
            for i in range(len(case["ops"])):
                if len(case["ops"]) > 1:
                    c = copy.deepcopy(case)
                    del c["ops"][i]
                    yield c
            for nn in (case["n"] // 2, case["n"] - 10):
                if nn >= 10:
                    c = copy.deepcopy(case)
                    c["n"] = nn
                    yield c
            return
        if case.get("steps") is None:
            evo = evo_ns()
            violation, steps, m = run_history(evo, case, self.prop)
            c = copy.deepcopy(case)
            c["steps"] = steps
            yield c
            return
        steps = case["steps"]
        n = len(steps)
        size = max(1, n // 2)
        while size >= 1:
            for i in range(0, n, size):
                c = copy.deepcopy(case)
                del c["steps"][i:i + size]
                yield c
            size //= 2
        for k, o in enumerate(case["objects"]):
            if o["n"] > 2:
                for nn in (max(2, o["n"] // 2), o["n"] - 1):
                    c = copy.deepcopy(case)
                    c["objects"][k]["n"] = nn
                    yield c
            simple = {"scale": 1.0, "rot": "uniform", "stationary": 0.0,
                      "jump": 0.0, "gap": 0.0, "t0": 0.0, "dt": 0.1}
            if o.get("profile") != simple:
                c = copy.deepcopy(case)
                c["objects"][k]["profile"] = simple
                yield c
        if len(case["objects"]) > 1:
            c = copy.deepcopy(case)
            c["objects"] = c["objects"][:-1]
            yield c

    def describe(self, case):
        if case.get("kind") == "text_precision":
            return {"kind": "text_precision", "n": case["n"],
                    "stamped": case["stamped"],
                    "ops": [[o["op"], o.get("mode")] for o in case["ops"]]}
        return {
            "kind": case.get("kind"),
            "objects": [{k: o[k] for k in ("ctor", "stamped", "n")}
                        for o in case["objects"]],
            "steps": case.get("steps") if case.get("steps") is not None else
            f"generated at run time from step_seed={case.get('step_seed')} "
            f"({case.get('nsteps')} steps)",
        }


# --------------------------------------------------------------------------
# pose matrices as they come out of a text file (KITTI format, "%e": seven
# significant digits): orthonormal only to ~1e-7, which evo's own check()
# accepts.  The reference model's tolerances are built for exact rotations,
# so this family has its own, deliberately narrow oracle: the counts of the
# views agree, and every pose still passes evo's own validity check.


def gen_text_precision_case(rng):
    n = rng.choice([30, 60, 100, 150, 200])
    ops = []
    for _ in range(rng.randint(1, 3)):
        r = rng.random()
        if r < 0.5:
            q = random_unit_quat(rng, rng.choice(["uniform", "small",
                                                  "identity"]))
            t = [rng.gauss(0, 5.0) for _ in range(3)]
            if rng.random() < 0.2:
                t = [0.0, 0.0, 0.0]
            ops.append({"op": "transform",
                        "mode": rng.choice(["left", "right", "prop"]),
                        "T": [float(x) for x in q] + t})
        elif r < 0.7:
            ops.append({"op": "scale", "s": rng.choice([0.5, 2.0, 1.0])})
        elif r < 0.9:
            ops.append({"op": "downsample", "k": rng.choice([2, 10, 25])})
        else:
            ops.append({"op": "read", "view": rng.choice(
                ["positions_xyz", "orientations_quat_wxyz", "distances"])})
    if rng.random() < 0.3:
        ops.append({"op": "project", "plane": rng.choice(["xy", "xz", "yz"])})
    return {"kind": "text_precision", "n": n, "stamped": rng.random() < 0.5,
            # seven significant digits (text file) or single precision (poses
            # computed elsewhere in float32)
            "dtype": rng.choice(["text", "text", "float32", "int_xyzquat",
                                 "float32_xyzquat"]),
            "data_seed": rng.getrandbits(30),
            "profile": {"scale": rng.choice([1.0, 10.0, 100.0]),
                        "rot": rng.choice(["uniform", "small", "planar"]),
                        "stationary": 0.0, "jump": 0.0, "gap": 0.0,
                        "t0": 0.0, "dt": 0.1},
            "ops": ops}


def run_text_precision(evo, case, check):
    from ..pool import gen_traj_data, se3_from
    res = RunResult()
    pos, quat, ts = gen_traj_data(case["data_seed"], case["n"],
                                  case["profile"])
    poses = []
    for i in range(case["n"]):
        T, _, _ = se3_from(list(quat[i]) + list(pos[i]))
        if case.get("dtype") == "float32":
            poses.append(T.astype(np.float32))
        elif case.get("dtype") == "exact":
            poses.append(T)  # float64, orthonormal to rounding
        else:
            poses.append(np.array([[float("%e" % x) for x in row]
                                   for row in T]))
    T_ = evo.trajectory
    kw = {"poses_se3": poses}
    if case.get("dtype") == "int_xyzquat":
        # integer way points with identity orientations written as integers
        kw = {"positions_xyz": np.round(pos).astype(np.int64),
              "orientations_quat_wxyz": np.tile(
                  np.array([1, 0, 0, 0], dtype=np.int64), (case["n"], 1))}
    elif case.get("dtype") == "float32_xyzquat":
        kw = {"positions_xyz": pos.astype(np.float32),
              "orientations_quat_wxyz": quat.astype(np.float32)}
    if "poses_se3" not in kw:
        # (the matrices are only used for the is_se3() screening below)
        tmp = T_.PosePath3D(**{k: v.copy() for k, v in kw.items()})
        poses = [np.array(p) for p in tmp.poses_se3]
    if case["stamped"]:
        obj = T_.PoseTrajectory3D(timestamps=ts, **kw)
    else:
        obj = T_.PosePath3D(**kw)
    trail = []

    def state(tag):
        ok, details = copy.deepcopy(obj).check()
        bad = {k: str(v) for k, v in details.items()
               if k != "timestamps" and not str(v).startswith(("ok", "yes"))}
        counts = {int(obj.num_poses), len(obj.poses_se3),
                  len(obj.positions_xyz), len(obj.orientations_quat_wxyz)}
        trail.append([tag, sorted(bad), sorted(counts)])
        return bad, counts

    def crashed(stage, e, k=None):
        # evo refuses with its own exceptions; anything else on input that
        # its own is_se3() accepts is a breakdown
        return {"class": "C08",
                "sig": f"C08:text_precision:{stage}:unexpected-exception",
                "detail": {"exception": f"{type(e).__name__}: {str(e)[:200]}",
                           "dtype": case.get("dtype", "text"), "n": case["n"],
                           "op_index": k}}

    if not all(evo.lie.is_se3(p) for p in poses):
        res.stats["probe.text_precision_input_rejected"] += 1
        res.digest = digest_of(["not se3"])
        return res
    try:
        bad, counts = state("input")
    except evo.EvoException:
        bad = {"refused": "by evo"}
    except Exception as e:  # noqa
        res.violation = crashed("input", e)
        res.digest = digest_of([trail, res.violation["sig"]])
        res.nontrivial_key = res.digest
        return res
    if bad:
        # rounding pushed this one over evo's tolerance: not a valid input
        res.stats["probe.text_precision_input_rejected"] += 1
        res.digest = digest_of(trail)
        return res
    res.stats["probe.text_precision_input_accepted_by_check"] += 1
    violation = None
    for k, op in enumerate(case["ops"]):
        name = op["op"]
        try:
            if name == "transform":
                T, _, _ = se3_from(op["T"])
                name = "transform_" + op["mode"]
                obj.transform(T, right_mul=op["mode"] in ("right", "prop"),
                              propagate=op["mode"] == "prop")
            elif name == "scale":
                obj.scale(op["s"])
            elif name == "downsample":
                obj.downsample(max(2, obj.num_poses // op["k"]))
            elif name == "read":
                getattr(obj, op["view"])
            elif name == "project":
                obj.project({"xy": T_.Plane.XY, "xz": T_.Plane.XZ,
                             "yz": T_.Plane.YZ}[op["plane"]])
            bad, counts = state(name)
        except evo.EvoException:
            res.stats["probe.text_precision_refused"] += 1
            continue
        except Exception as e:  # noqa
            violation = crashed(name, e, k)
            break
        if len(counts) != 1:
            violation = {"class": "C08",
                         "sig": f"C08:text_precision:{name}:view-count",
                         "detail": {"counts": sorted(counts), "op_index": k}}
            break
        if bad:
            # a propagating transform composes all (imprecise) relative
            # motions: poses that were pushed close to evo's tolerance by it
            # may only cross it in a later, harmless step - such failures are
            # attributed to the propagation
            propagated = any(o["op"] == "transform" and o["mode"] == "prop"
                             for o in case["ops"][:k + 1])
            where = "after-propagating-transform" if propagated else name
            violation = {
                "class": "C08",
                "sig": f"C08:text_precision:{where}:check-failed",
                "detail": {"what": "valid input (pose matrices with seven "
                           "significant digits, accepted by check()) fails "
                           "evo's own validity check after this operation",
                           "details": bad, "n": case["n"], "op_index": k}}
            break
    res.violation = violation
    res.steps = len(trail)
    res.digest = digest_of([trail, violation["sig"] if violation else None])
    res.nontrivial_key = res.digest
    res.aux["final_states"] = [res.digest]
    res.aux["op_sequences"] = [digest_of([o["op"] for o in case["ops"]])]
    return res
