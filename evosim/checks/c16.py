"""
C16 - computations do not modify their inputs or other trajectory objects.
Engine E3 (pool.py / pool_ops.py), deriver/computation-heavy mix; reports the
violations attributed to objects that were not the receiver of an operation
and to derived objects.
"""
from ._e3 import E3Check


class C16(E3Check):
    prop = "C16"
    mix = "c16"
    quick_min_runs = 5500
    required_probes = E3Check.required_probes + E3Check.C16_ONLY_PROBES


CHECK = C16()
