"""
C17 - existing output files are never overwritten without confirmation.

Engine E2 (sandbox.py): histories of writer / CLI operations in one sandbox
directory on tmpfs, so that a file produced by operation k is an existing
target for operation k+1; a scripted (and faulty) user behind input(); every
open / rename / remove performed by any library is seen by an audit hook,
which also injects ENOSPC/EACCES into confirmed writes.
"""
from __future__ import annotations

import contextlib
import copy
import fnmatch
import io
import json
import os
import random
import sys

import numpy as np

from ..core import Check, RunResult, digest_of, HarnessError
from .. import sandbox
from ..pool import gen_traj_data

ANSWERS_DECLINE = ["n", "", "Y", "yes", "y ", " y", "no", "q", "1", "yy"]
_EVO = None
FIG_IN = "work/figs.pkl"  # evo_fig's input (and, on request, its output)


def evo_ns():
    global _EVO
    if _EVO is None:
        from .. import evons
        ns = evons.load()
        import matplotlib
        matplotlib.use("Agg")
        from evo import main_traj, main_res, main_config, entry_points
        from evo import main_fig
        from evo import main_ape_parser, main_rpe_parser, main_traj_parser
        from evo import main_res_parser
        from evo.tools import settings
        ns.main_traj, ns.main_res, ns.main_config = main_traj, main_res, main_config
        ns.entry_points = entry_points
        ns.main_fig = main_fig
        ns.parsers = {"ape": main_ape_parser, "rpe": main_rpe_parser,
                      "traj": main_traj_parser, "res": main_res_parser}
        ns.mains = {"ape": ns.main_ape, "rpe": ns.main_rpe, "traj": main_traj,
                    "res": main_res}
        ns.settings = settings
        _EVO = ns
    return _EVO


# ------------------------------------------------------------------ data
class RunData:
    """tiny synthetic inputs of one run (pure function of the seed)"""
    def __init__(self, evo, seed):
        T = evo.trajectory
        prof = {"scale": 1.0, "rot": "any", "stationary": 0.0, "jump": 0.0,
                "gap": 0.0, "t0": 10.0, "dt": 0.1}
        n = 14
        pos, quat, ts = gen_traj_data(seed, n, prof)
        rng = random.Random(seed + 1)
        self.trajs = []
        for k in range(3):
            noise = np.array([[rng.gauss(0, 0.05 * k) for _ in range(3)]
                              for _ in range(n)])
            self.trajs.append(T.PoseTrajectory3D(pos + noise, quat.copy(),
                                                 ts.copy()))
        M = evo.metrics
        self.results = [
            evo.main_ape.ape(copy.deepcopy(self.trajs[0]),
                             copy.deepcopy(self.trajs[k]),
                             M.PoseRelation.translation_part,
                             ref_name="ref", est_name=f"est{k}")
            for k in (1, 2)
        ]
        # a result with another title (evo_res then asks whether to go on)
        self.results.append(
            evo.main_rpe.rpe(copy.deepcopy(self.trajs[0]),
                             copy.deepcopy(self.trajs[2]),
                             M.PoseRelation.translation_part, 1.0,
                             M.Unit.frames, ref_name="ref", est_name="est3",
                             support_loop=True))

    def write_inputs(self, evo):
        fi = evo.file_interface
        for d in ("in", "in2", "sub"):
            os.makedirs(d, exist_ok=True)
        fi.write_tum_trajectory_file("in/ref.txt", self.trajs[0])
        fi.write_tum_trajectory_file("in/est.txt", self.trajs[1])
        fi.write_tum_trajectory_file("in2/est.txt", self.trajs[2])
        fi.write_kitti_poses_file("in/ref.kitti", self.trajs[0])
        fi.write_kitti_poses_file("in/est.kitti", self.trajs[1])
        fi.save_res_file("in/r1.zip", self.results[0])
        fi.save_res_file("in/r2.zip", self.results[1])
        fi.save_res_file("in/r3.zip", self.results[2])
        with open("in/nw.json", "w") as f:
            json.dump({"no_warnings": True}, f)
        # a serialized PlotCollection for evo_fig; it is NOT under in/ because
        # evo_fig offers to overwrite it (after a question of its own)
        import matplotlib.pyplot as plt
        os.makedirs("work", exist_ok=True)
        pc = evo.plot.PlotCollection("t")
        for name in ("a", "b"):
            fig = plt.figure(figsize=(1.5, 1.5))
            fig.gca().plot([0, 1], [0, 1])
            pc.add_figure(name, fig)
        try:
            pc.serialize(FIG_IN, confirm_overwrite=False)
        finally:
            pc.close()


def valid_for(evo, op, rel, data: bytes):
    """complete output of the kind the option that names `rel` produces
    (the file name need not carry the usual extension)"""
    o = op.get("opts") or {}
    kinds = [k for k in ("serialize_plot", "save_results") if o.get(k) == rel]
    if kinds:
        ok = []
        if "serialize_plot" in kinds:
            ok.append(data[:1] == b"\x80" and data[-1:] == b".")
        if "save_results" in kinds:
            ok.append(valid_content(evo, "x.zip", data))
        return any(ok)
    return valid_content(evo, rel, data)


def valid_content(evo, rel, data: bytes):
    """does `data` look like a complete output of the kind its name says?"""
    ext = os.path.splitext(rel)[1].lower()
    try:
        if ext in (".tum", ".kitti", ".txt"):
            rows = [l for l in data.decode().splitlines() if l.strip()]
            want = 8 if ext != ".kitti" else 12
            return len(rows) > 0 and all(len(r.split()) == want for r in rows)
        if ext == ".zip":
            import zipfile
            with zipfile.ZipFile(io.BytesIO(data)) as z:
                return "info.json" in z.namelist() and z.testzip() is None
        if ext == ".csv":
            return len(data) > 0 and b"," in data
        if ext == ".json":
            json.loads(data)
            return True
        if ext == ".png":
            return data[:8] == b"\x89PNG\r\n\x1a\n" and data[-8:-4] == b"IEND"
        if ext == ".pdf":
            return data[:5] == b"%PDF-" and b"%%EOF" in data[-1024:]
        if ext == ".svg":
            return b"<svg" in data and b"</svg>" in data[-200:]
        if ext == ".pkl":
            return data[:1] == b"\x80" and data[-1:] == b"."
    except Exception:  # noqa
        return False
    return len(data) > 0


# ------------------------------------------------------------- operations
def _odd_case_pdf(path, op):
    """'.PDF' / '.Pdf': today this means one file per figure (the test is
    case sensitive); a case-insensitive test (one multi-page file) would be
    just as right - both layouts are accepted as expected outputs"""
    base, ext = os.path.splitext(path)
    return ext != ".pdf" and ext.lower() == ".pdf" and not op.get("plot_split")


def expected_outputs(op):
    """([exact relpaths in the order the code writes them], [glob patterns])"""
    exact, globs = _expected_outputs(op)
    for key in ("path", ):
        pass
    paths = []
    if op["kind"] == "lib_export":
        paths.append(op["path"])
    elif "opts" in op and op["opts"].get("save_plot"):
        paths.append(op["opts"]["save_plot"])
    for path in paths:
        if path.endswith("."):
            # "plot.": matplotlib strips the dot and appends its default format
            base = path[:-1]
            exact = [e for e in exact if not e.startswith(base + "_")]
            globs = globs + [f"{base}_*"]
            continue
        if os.path.splitext(path)[1] not in ("", ".pdf", ".png", ".svg",
                                             ".PDF", ".Png"):
            # a suffix that is no image format ("plot_0.5"): whatever files
            # the export decides to write carry the plot's base name
            base = os.path.splitext(path)[0]
            exact = [e for e in exact if not e.startswith(base + "_")]
            globs = globs + [f"{base}_*"]
            continue
        if not os.path.splitext(path)[1]:
            # no extension: one file per figure, and matplotlib appends its
            # default format to each name
            base = path
            exact = [e for e in exact if not e.startswith(base + "_")]
            globs = globs + [f"{base}_*"]
            continue
        if _odd_case_pdf(path, op):
            base, ext = os.path.splitext(path)
            exact = [e for e in exact if not (e == path or e.startswith(
                base + "_"))]
            globs = globs + [path, f"{base}_*{ext}"]
    return exact, globs


def _expected_outputs(op):
    k = op["kind"]
    if k in ("lib_tum", "lib_kitti", "lib_res", "lib_table", "lib_serialize",
             "cli_generate"):
        return [op["path"]], []
    if k == "lib_export":
        base, ext = os.path.splitext(op["path"])
        if ext == ".pdf" and not op.get("plot_split"):
            return [op["path"]], []
        return [f"{base}_{n}{ext}" for n in ("a", "b")], []
    exact, globs = [], []
    o = op["opts"]
    if k in ("cli_ape", "cli_rpe"):
        if o.get("save_plot"):
            base, ext = os.path.splitext(o["save_plot"])
            if ext == ".pdf" and not op.get("plot_split"):
                exact.append(o["save_plot"])
            else:
                exact += [f"{base}_raw{ext}", f"{base}_map{ext}"]
        if o.get("serialize_plot"):
            exact.append(o["serialize_plot"])
        if o.get("save_results"):
            exact.append(o["save_results"])
    elif k == "cli_traj":
        if o.get("save_plot"):
            base, ext = os.path.splitext(o["save_plot"])
            if ext == ".pdf" and not op.get("plot_split"):
                exact.append(o["save_plot"])
            else:
                globs.append(f"{base}_*{ext}")
        if o.get("serialize_plot"):
            exact.append(o["serialize_plot"])
        stems = [os.path.splitext(os.path.basename(f))[0]
                 for f in op["inputs"] if f != o.get("ref")]
        if o.get("merge"):
            stems = ["merged_trajectory"]  # evo_traj --merge: one output
        if o.get("ref"):
            stems.append(os.path.splitext(os.path.basename(o["ref"]))[0])
        for ext, flag in ((".tum", "save_as_tum"), (".kitti",
                                                    "save_as_kitti")):
            if o.get(flag):
                for s in stems:
                    if s + ext not in exact:
                        exact.append(s + ext)
        if o.get("save_table"):
            exact.append(o["save_table"])
    elif k == "cli_res":
        if o.get("save_table"):
            exact.append(o["save_table"])
        if o.get("save_plot"):
            base, ext = os.path.splitext(o["save_plot"])
            if ext == ".pdf" and not op.get("plot_split"):
                exact.append(o["save_plot"])
            else:
                globs.append(f"{base}_*{ext}")
        if o.get("serialize_plot"):
            exact.append(o["serialize_plot"])
    elif k == "cli_fig":
        # evo_fig re-serializes first, then exports the figures "a" and "b"
        if o.get("serialize_plot"):
            exact.append(o["serialize_plot"])
        if o.get("save_plot"):
            base, ext = os.path.splitext(o["save_plot"])
            if ext == ".pdf" and not op.get("plot_split"):
                exact.append(o["save_plot"])
            else:
                exact += [f"{base}_{n}{ext}" for n in ("a", "b")]
    return exact, globs


def collision_paths(op):
    """output paths that one command writes more than once"""
    if not op["kind"].startswith("cli_") or op["kind"] == "cli_generate":
        return []
    o = op["opts"]
    out = []
    if op["kind"] == "cli_traj":
        stems = [os.path.splitext(os.path.basename(f))[0]
                 for f in op["inputs"] if f != o.get("ref")]
        if o.get("merge"):
            stems = ["merged_trajectory"]
        if o.get("ref"):
            stems.append(os.path.splitext(os.path.basename(o["ref"]))[0])
        dup = sorted({x for x in stems if stems.count(x) > 1})
        for ext, flag in ((".tum", "save_as_tum"), (".kitti",
                                                    "save_as_kitti")):
            if o.get(flag):
                out += [x + ext for x in dup]
    named = [o[k] for k in ("save_plot", "serialize_plot", "save_results",
                            "save_table") if o.get(k)]
    out += sorted({x for x in named if named.count(x) > 1})
    return out


def warnings_on(op):
    if op["kind"].startswith("lib_"):
        return bool(op["confirm"])
    if op["kind"] == "cli_generate":
        return True  # evo_config generate has no switch
    return not (op.get("no_warnings") or op.get("no_warnings_via_config"))


def cli_argv(op):
    k = op["kind"]
    o = op["opts"]
    if k == "cli_fig":
        argv = [FIG_IN]
        for key in ("serialize_plot", "save_plot"):
            if o.get(key):
                argv += ["--" + key, o[key]]
        if op.get("title"):
            argv += ["--title", op["title"]]
        if op.get("no_warnings"):
            argv.append("--no_warnings")
        return argv
    if k in ("cli_ape", "cli_rpe"):
        fmt = op.get("fmt", "tum")
        argv = [fmt, f"in/ref.{'txt' if fmt == 'tum' else 'kitti'}",
                f"in/est.{'txt' if fmt == 'tum' else 'kitti'}"]
    elif k == "cli_traj":
        argv = ["tum"] + list(op["inputs"])
    else:
        argv = list(op["inputs"])
    via = set(op.get("via_config", ()))
    for key in ("save_plot", "serialize_plot", "save_results", "save_table",
                "ref"):
        if o.get(key) and key not in via:
            argv += ["--" + key, o[key]]
    for key in ("save_as_tum", "save_as_kitti", "align", "merge", "sync"):
        if o.get(key) and key not in via:
            argv.append("--" + key)
    argv += list(op.get("extra", ()))
    if op.get("no_warnings"):
        argv.append("--no_warnings")
    if op_config(op):
        argv += ["-c", "in/opcfg.json"]
    return argv


def op_config(op):
    """content of the -c config file of a CLI operation (options that are
    given through the file instead of on the command line)"""
    cfg = {k: op["opts"][k] for k in op.get("via_config", ())
           if op["opts"].get(k)}
    if op.get("no_warnings_via_config"):
        cfg["no_warnings"] = True
    return cfg


class C17(Check):
    prop = "C17"
    level = "exploration"
    case_timeout_s = 400  # whole runs with plots, on a loaded machine
    quick_budget_s = 50.0
    quick_min_runs = 250
    thorough_budget_s = 840.0
    batch = 6
    rule = (
        "seeded histories of 3-12 operations in one sandbox directory: "
        "library writers (write_tum, write_kitti, save_res_file, "
        "save_df_as_table csv/json, PlotCollection.export pdf/png/svg with "
        "plot_split on/off, PlotCollection.serialize) with confirm_overwrite "
        "on/off and the path as str or pathlib.Path, and CLI commands run "
        "in-process through the real parser -> merge_config -> main_*.run: "
        "evo_ape / evo_rpe (--save_results, --save_plot, --serialize_plot), "
        "evo_traj (--save_as_tum, --save_as_kitti, --save_table, --save_plot, "
        "--serialize_plot, --ref, equal-stem inputs), evo_res (--save_table, "
        "--save_plot, --serialize_plot), evo_config generate -o; "
        "--no_warnings on the command line or through -c. Before each "
        "operation the scheduler plants pre-existing targets (random bytes or "
        "an earlier real output) and scripts the user: y, n, empty, Y, yes, "
        "'y ', ' y', other text, EOF, Ctrl-C, answers running out; ENOSPC / "
        "EACCES is injected into ~10% of confirmed writes. 40% of the "
        "histories repeat an earlier command; 15% run as an ordinary user "
        "(capabilities dropped) with write-protected targets; targets may be "
        "empty, have odd file times, lie behind a symlinked directory, arrive "
        "with the directory times restored, or be the file fd 1 is appended "
        "to. Besides the random "
        "histories a seeded permutation of the configuration matrix (sink x "
        "exists x answer class x warnings x str/Path) is walked. A case is "
        "non-trivial if at least one operation met a pre-existing target; "
        "distinct = distinct digest of the event log.")
    assumptions = [
        "the disk is real (tmpfs); what is observed are the Python-level "
        "open/rename/remove/truncate audit events of the interpreter "
        "(C-level file access that bypasses them would be invisible; none of "
        "the writers under test does that)",
        "each CLI command runs in-process with SETTINGS restored afterwards "
        "(stands in for 'each command is its own process'); module state of "
        "evo deliberately persists across the operations of one history",
        "not covered: --logfile (appends), evo_traj --save_as_bag* "
        "(timestamped names), evo_fig --to_html (mpld3 is not installed), "
        "in-place evo_config set -c file",
    ]
    components = {
        "real": [
            "evo/tools/user.py", "evo/tools/file_interface.py",
            "evo/tools/pandas_bridge.py", "evo/tools/plot.py (Agg)",
            "evo/main_ape.py", "evo/main_rpe.py", "evo/main_traj.py",
            "evo/main_res.py", "evo/main_config.py", "evo/main_fig.py",
            "evo/common_ape_rpe.py",
            "evo/entry_points.py:merge_config", "the four argparse parsers",
            "numpy / pandas / matplotlib / zipfile / pickle writers",
            "tmpfs"
        ],
        "stub": ["the user (input())",
                 "SETTINGS restored between operations"],
    }
    required_probes = (
        "prompt_answered_y", "prompt_answered_n", "prompt_answered_empty",
        "prompt_answered_other", "prompt_answered_eof",
        "prompt_answered_interrupt", "target_str", "target_path",
        "multi_file_export_declined_midway", "no_warnings_overwrite",
        "no_warnings_via_config", "confirmed_replaced", "declined_kept",
        "disk_fault_fired", "same_process_second_save",
        "colliding_outputs_in_one_command", "target_is_symlink",
        "target_is_relative_symlink_in_subdirectory",
        "target_appeared_during_command", "output_path_from_config",
        "target_is_empty_file", "history_as_ordinary_user",
        "target_is_write_protected",
    )

    def setup_worker(self):
        self.evo = evo_ns()
        import logging
        # the "<path> exists, overwrite?" record must reach the tap whatever
        # the level of the parent loggers is
        logging.getLogger("evo.tools.user").setLevel(logging.DEBUG)
        scratch = os.environ.get("EVO_VERIF_SCRATCH", "/dev/shm/evo-verif-x")
        self.sb = sandbox.Sandbox(os.path.join(scratch, f"run-{os.getpid()}"))
        self.data_cache = {}
        with contextlib.redirect_stdout(io.StringIO()):
            for seed in range(5):  # inherited by the forked history children
                self._data(seed)

    # ----------------------------------------------------------- generation
    SINKS = ["lib_tum", "lib_kitti", "lib_res", "lib_table", "lib_export",
             "lib_serialize", "cli_ape", "cli_rpe", "cli_traj", "cli_res",
             "cli_generate", "cli_fig"]

    def gen_op(self, rng, kind=None, exists=None, answer=None, warn=None,
               as_path=None):
        kind = kind or rng.choice(self.SINKS + ["lib_tum", "lib_res",
                                                "lib_table", "cli_generate"])
        op = {"kind": kind}
        sub = rng.choice(["", "", "sub/"])
        if kind == "lib_tum":
            op.update(path=sub + rng.choice(["out.tum", "a.tum", "my out.tum",
                                             "tr\u00e4j.tum"]),
                      data=rng.randrange(3))
        elif kind == "lib_kitti":
            op.update(path=sub + rng.choice(["out.kitti", "a.kitti"]),
                      data=rng.randrange(3))
        elif kind == "lib_res":
            op.update(path=sub + rng.choice(["res.zip", "b.zip"]),
                      data=rng.randrange(2))
        elif kind == "lib_table":
            fmt = rng.choice(["csv", "json"])
            op.update(path=sub + "table." + fmt, fmt=fmt,
                      data=rng.randrange(2))
        elif kind == "lib_export":
            op.update(path=sub + "plot" + rng.choice([".pdf", ".png", ".svg",
                                                      ".png", ".PDF", ".Png",
                                                      "", ".", "_0.5"]),
                      plot_split=rng.random() < 0.3)
        elif kind == "lib_serialize":
            op.update(path=sub + "plots.pkl")
        elif kind in ("cli_ape", "cli_rpe"):
            o = {}
            r = rng.random()
            if r < 0.6:
                o["save_results"] = sub + rng.choice(["res.zip", "b.zip"])
            if r > 0.45 and rng.random() < 0.5:
                o["save_plot"] = sub + "plot" + rng.choice([".pdf", ".png",
                                                            ".PDF", ".pdf",
                                                            "", ".", "_0.5"])
            if rng.random() < 0.15:
                o["serialize_plot"] = sub + "plots.pkl"
            if not o:
                o["save_results"] = "res.zip"
            if rng.random() < 0.05:
                # the same file name given to two options
                o["serialize_plot"] = o.get("save_results") or "res.zip"
                o["save_results"] = o["serialize_plot"]
            if rng.random() < 0.3:
                o["align"] = True
            op.update(opts=o, fmt=rng.choice(["tum", "tum", "kitti"]),
                      plot_split=rng.random() < 0.2)
        elif kind == "cli_traj":
            inputs = ["in/est.txt"]
            if rng.random() < 0.4:
                inputs.append("in2/est.txt")  # same stem: colliding exports
            o = {}
            if rng.random() < 0.4:
                o["ref"] = rng.choice(["in/ref.txt", "in/ref.txt",
                                       "in2/est.txt"])
            r = rng.random()
            if r < 0.5:
                o["save_as_tum"] = True
            if 0.3 < r < 0.7:
                o["save_as_kitti"] = True
            if r > 0.6:
                o["save_table"] = sub + "table.csv"
            if rng.random() < 0.1:
                o["save_plot"] = sub + "plot" + rng.choice([".pdf", ".png"])
            if rng.random() < 0.05:
                o["serialize_plot"] = sub + "plots.pkl"
            if not any(k in o for k in ("save_as_tum", "save_as_kitti",
                                        "save_table", "save_plot",
                                        "serialize_plot")):
                o["save_as_tum"] = True
            if rng.random() < 0.2:
                o["merge"] = True
            if o.get("ref") and o["ref"] not in inputs:
                if rng.random() < 0.3:
                    o["sync"] = True
                if rng.random() < 0.3:
                    o["align"] = True
            op.update(opts=o, inputs=inputs, plot_split=False)
        elif kind == "cli_res":
            o = {}
            if rng.random() < 0.75:
                o["save_table"] = sub + "table.csv"
            if rng.random() < 0.2:
                o["save_plot"] = sub + "plot" + rng.choice([".pdf", ".png"])
            if rng.random() < 0.08:
                o["serialize_plot"] = sub + "plots.pkl"
            if not o:
                o["save_table"] = "table.csv"
            inputs = ["in/r1.zip", "in/r2.zip"]
            if rng.random() < 0.35:
                inputs = rng.choice([["in/r1.zip", "in/r3.zip"],
                                     ["in/r3.zip", "in/r1.zip", "in/r2.zip"]])
            op.update(opts=o, inputs=inputs, plot_split=False)
        elif kind == "cli_fig":
            o = {}
            r = rng.random()
            if r < 0.55:
                o["serialize_plot"] = sub + rng.choice(["plots.pkl",
                                                        "figs2.pkl"])
            if r > 0.3:
                o["save_plot"] = sub + "plot" + rng.choice([".pdf", ".png",
                                                            ".svg", ".pdf"])
            if rng.random() < 0.12:
                o = {}  # only looks at the file (and offers to rewrite it)
            op.update(opts=o, plot_split=rng.random() < 0.3)
            if rng.random() < 0.3:
                op["title"] = rng.choice(["my plots", "t"])
        elif kind == "cli_generate":
            op.update(path=sub + rng.choice(["cfg.json", "gen.json"]),
                      argv=rng.choice([["--align", "--plot_mode", "xz"],
                                       ["--downsample", "500", "--verbose"],
                                       ["--t_offset", "-0.5"]]))
        # flags that have nothing to do with saving
        extra_pool = {
            "cli_ape": ["--silent", "--verbose", "--correct_scale",
                        "--plot_full_ref"],
            "cli_rpe": ["--silent", "--verbose", "--correct_scale",
                        "--all_pairs"],
            "cli_traj": ["--silent", "--verbose", "--full_check",
                         "--show_full_names"],
            "cli_res": ["--silent", "--verbose", "--use_filenames",
                        "--ignore_title", "--use_rel_time"],
        }.get(kind)
        if extra_pool:
            op["extra"] = [f for f in extra_pool if rng.random() < 0.2]
            if "--silent" in op["extra"] and "--verbose" in op["extra"]:
                op["extra"].remove("--verbose")
        if kind == "cli_generate":
            op["path_form"] = rng.choice(["plain", "plain", "plain", "tilde"])
        # warnings / path type
        if kind.startswith("lib_"):
            op["confirm"] = (rng.random() < 0.75) if warn is None else warn
            op["as_path"] = (rng.random() < 0.5) if as_path is None else as_path
            op["path_form"] = rng.choice(["plain", "plain", "dot", "abs",
                                          "updir", "tilde", "linkdir"])
            if op["path_form"] == "linkdir":
                # given as "lnk/../name" where lnk is a symlink to the
                # directory store_dir/deep: the file is store_dir/name
                op["path"] = "store_dir/" + os.path.basename(op["path"])
            op["positional_flag"] = rng.random() < 0.3
        elif kind != "cli_generate":
            w = (rng.random() < 0.75) if warn is None else warn
            if not w:
                if rng.random() < 0.5 or kind == "cli_fig":
                    op["no_warnings"] = True  # evo_fig has no -c option
                else:
                    op["no_warnings_via_config"] = True
        if kind.startswith("cli_") and kind not in ("cli_generate", "cli_fig"):
            st = {}
            if rng.random() < 0.3:
                st["save_traj_in_zip"] = True
            if rng.random() < 0.3:
                st["table_export_data"] = rng.choice(["stats", "info",
                                                      "error_array"])
            if rng.random() < 0.2:
                st["table_export_transpose"] = False
            if rng.random() < 0.2:
                st["plot_seaborn_enabled"] = False
            if rng.random() < 0.25:
                # documented alternatives to metres for the trajectory plots
                st["plot_trajectory_length_unit"] = rng.choice(["mm", "cm",
                                                                "km"])
            if st:
                op["settings"] = st
        if kind.startswith("cli_") and kind not in ("cli_generate",
                                                    "cli_fig") and (
                rng.random() < 0.15):
            # some output options come from a -c config file instead
            keys = [k for k in ("save_plot", "serialize_plot", "save_results",
                                "save_table", "save_as_tum", "save_as_kitti")
                    if op["opts"].get(k)]
            if keys:
                op["via_config"] = rng.sample(keys, rng.randint(1, len(keys)))
        # pre-existing targets
        exact, globs = expected_outputs(op)
        cands = list(exact)
        for g in globs:
            if g.endswith("_*"):
                # extension-less plot target: matplotlib writes <name>.png
                cands += [g.replace("*", n) + ".png"
                          for n in ("trajectories", "raw", "map", "a", "b")]
            elif "*" in g:
                cands += [g.replace("*", n) for n in ("trajectories", "xyz",
                                                      "raw", "map", "a", "b",
                                                      "box_plot")]
            else:
                cands.append(g)
        pre = {}
        for c in cands:
            p = 0.45 if exists is None else (1.0 if exists else 0.0)
            if rng.random() < p:
                pre[c] = rng.choice(["random", "random", "keep", "random",
                                     "keep", "symlink", "empty"])
        if exists and not pre and cands:
            pre[cands[0]] = "random"
        op["pre"] = pre
        # the user's script
        nprompts = len(pre) + 1
        answers = []
        for _ in range(nprompts):
            cls = answer or rng.choice(["y", "y", "y", "n", "empty", "other",
                                        "eof", "int"])
            if cls == "y":
                answers.append("y")
            elif cls == "n":
                answers.append("n")
            elif cls == "empty":
                answers.append("")
            elif cls == "other":
                answers.append(rng.choice(ANSWERS_DECLINE))
            elif cls == "eof":
                answers.append("<EOF>")
            else:
                answers.append("<INT>")
        if rng.random() < 0.1 and answer is None:
            answers = answers[:rng.randrange(len(answers))]  # script runs out
        if kind == "cli_res" and "in/r3.zip" in op["inputs"]:
            # differing titles: evo_res first asks whether to go on at all
            # (once per mismatching file) - a question that is NOT about
            # overwriting anything
            nq = 2 if op["inputs"][0] == "in/r3.zip" else 1
            op["title_questions"] = nq
            answers = [("y" if rng.random() < 0.85 else "n")
                       for _ in range(nq)] + answers
        op["answers"] = answers
        if kind in ("cli_ape", "cli_rpe", "cli_traj", "cli_res") and (
                rng.random() < 0.2):
            absent = [c for c in exact if c not in pre]
            if absent:
                # another job creates the target while this command runs
                op["late"] = {"path": rng.choice(absent),
                              "after": rng.randint(1, 3)}
                op["answers"] = answers = answers + [rng.choice(
                    ["n", "y", "", "n"])]
        if rng.random() < 0.1 and pre and "y" in answers:
            tgt = rng.choice(sorted(pre))
            op["fault"] = {"path": tgt, "errno": rng.choice([28, 13])}
        plain = sorted(k for k, how in pre.items()
                       if how in ("random", "keep", "readonly"))
        if plain and rng.random() < 0.04:
            op["fd1_to"] = rng.choice(plain)
        return op

    def make_case(self, rng, tier, index):
        nops = rng.randint(3, 12)
        ops = [self.gen_op(rng) for _ in range(nops)]
        if rng.random() < 0.4:
            # the same command once more: everything the first run wrote is
            # now a pre-existing target, whatever it decided to call it
            i = rng.randrange(len(ops))
            again = copy.deepcopy(ops[i])
            again["pre"] = {}
            again.pop("late", None)
            again.pop("fault", None)
            nq = again.get("title_questions", 0)
            again["answers"] = list(again["answers"][:nq]) + [
                rng.choice(["y", "n", "", "<EOF>", "n", "no"])
                for _ in range(rng.randint(0, 4))]
            again["rerun"] = True
            ops.insert(rng.randint(i + 1, len(ops)), again)
        case = {"kind": "history", "seed": rng.getrandbits(31), "ops": ops}
        if rng.random() < 0.15:
            # the user is not root: existing targets may be write-protected
            case["unprivileged"] = True
            for op in ops:
                for k, how in list(op.get("pre", {}).items()):
                    if how in ("random", "empty") and rng.random() < 0.6:
                        op["pre"][k] = "readonly"
        return case

    def fixed_cases(self, tier):
        """a seeded permutation of the configuration matrix"""
        rng = random.Random(20261004)
        cells = []
        for kind in self.SINKS:
            for exists in (True, False):
                for ans in ("y", "n", "empty", "other"):
                    for warn in (True, False):
                        for as_path in (True, False):
                            if not kind.startswith("lib_") and as_path:
                                continue
                            if kind == "cli_generate" and not warn:
                                continue
                            cells.append((kind, exists, ans, warn, as_path))
        rng.shuffle(cells)
        self.matrix_cells = len(cells)
        cases = []
        per = 6
        for i in range(0, len(cells), per):
            ops = [self.gen_op(rng, *c) for c in cells[i:i + per]]
            cases.append({"kind": "matrix", "seed": 4242 + i, "ops": ops,
                          "cells": [list(c) for c in cells[i:i + per]]})
        return cases

    # ------------------------------------------------------------ execution
    def _data(self, seed):
        d = self.data_cache.get(seed)
        if d is None:
            if len(self.data_cache) > 8:
                self.data_cache.clear()
            d = RunData(self.evo, seed)
            self.data_cache[seed] = d
        return d

    def _make_fn(self, op, data):
        evo = self.evo
        from pathlib import Path
        k = op["kind"]

        def P(rel):
            form = op.get("path_form", "plain")
            if form == "dot":
                rel = "./" + rel
            elif form == "abs":
                rel = os.path.join(self.sb.root, rel)
            elif form == "updir" and "/" in rel:
                d, b = rel.split("/", 1)
                rel = f"{d}/../{d}/{b}"
            elif form == "tilde" and "/" not in rel:
                rel = "~/" + rel  # not expanded by any shell (quoted, config)
            elif form == "linkdir" and rel.startswith("store_dir/"):
                rel = "lnk/../" + os.path.basename(rel)
            return Path(rel) if op.get("as_path") else rel

        # the flag is an ordinary parameter: by keyword or by position
        pos = bool(op.get("positional_flag"))

        def call(fn, *args):
            if pos:
                return fn(*args, op["confirm"])
            return fn(*args, confirm_overwrite=op["confirm"])

        if k == "lib_tum":
            return lambda: call(evo.file_interface.write_tum_trajectory_file,
                                P(op["path"]), data.trajs[op["data"]])
        if k == "lib_kitti":
            return lambda: call(evo.file_interface.write_kitti_poses_file,
                                P(op["path"]), data.trajs[op["data"]])
        if k == "lib_res":
            return lambda: call(evo.file_interface.save_res_file,
                                P(op["path"]), data.results[op["data"]])
        if k == "lib_table":
            def f():
                df = evo.pandas_bridge.result_to_df(data.results[op["data"]])
                if pos:
                    evo.pandas_bridge.save_df_as_table(
                        df, P(op["path"]), op["fmt"], True, op["confirm"])
                else:
                    evo.pandas_bridge.save_df_as_table(
                        df, P(op["path"]), format_str=op["fmt"],
                        transpose=True, confirm_overwrite=op["confirm"])
            return f
        if k in ("lib_export", "lib_serialize"):
            def f():
                import matplotlib.pyplot as plt
                pc = evo.plot.PlotCollection("t")
                for name in ("a", "b"):
                    fig = plt.figure(figsize=(1.5, 1.5))
                    fig.gca().plot([0, 1], [0, 1])
                    pc.add_figure(name, fig)
                try:
                    # str or pathlib.Path, like every other writer
                    if k == "lib_export":
                        call(pc.export, P(op["path"]))
                    else:
                        call(pc.serialize, P(op["path"]))
                finally:
                    pc.close()
            return f
        if k == "cli_generate":
            def f():
                old = sys.argv
                out_path = op["path"]
                if op.get("path_form") == "tilde" and "/" not in out_path:
                    out_path = "~/" + out_path
                sys.argv = ["evo_config", "generate", "--no_color"] + list(
                    op["argv"]) + ["-o", out_path]
                try:
                    evo.main_config.main()
                finally:
                    sys.argv = old
            return f
        if k == "cli_fig":
            def f():
                old = sys.argv
                sys.argv = ["evo_fig"] + cli_argv(op)
                try:
                    evo.main_fig.main()
                finally:
                    sys.argv = old
            return f
        app = k.split("_")[1]

        def f():
            argv = cli_argv(op)
            parser = evo.parsers[app].parser()
            args = parser.parse_args(argv)
            if hasattr(args, "config"):
                args = evo.entry_points.merge_config(args)
            evo.mains[app].run(args)
        return f

    def execute(self, case) -> RunResult:
        """
        Every history runs in a forked child of the worker: evo's module
        state (and matplotlib's) deliberately persists across the operations
        of one history, but must not leak from one history into the next -
        one case is one exactly repeatable execution.
        """
        import pickle
        import signal
        import traceback
        r, w = os.pipe()
        pid = os.fork()
        if pid == 0:
            code = 0
            try:
                os.close(r)
                signal.alarm(150)
                try:
                    out = ("ok", self._execute_inner(case))
                except HarnessError as e:
                    out = ("harness", str(e))
                except BaseException:  # noqa
                    out = ("harness", traceback.format_exc(limit=8))
                data = pickle.dumps(out)
                with os.fdopen(w, "wb") as f:
                    f.write(data)
            except BaseException:  # noqa
                code = 3
            finally:
                os._exit(code)
        os.close(w)
        with os.fdopen(r, "rb") as f:
            data = f.read()
        _, status = os.waitpid(pid, 0)
        if not data:
            raise HarnessError(f"history child died (status {status})")
        kind, payload = pickle.loads(data)
        if kind != "ok":
            raise HarnessError("in history child: " + payload)
        return payload

    @staticmethod
    def _become_ordinary_user(sb):
        """drop CAP_DAC_OVERRIDE / CAP_DAC_READ_SEARCH / CAP_FOWNER for the
        rest of this (forked) process: uid 0 is then bound by permission bits
        like any file owner.  (Changing the uid instead would lock the child
        out of the interpreter's own library directory.)"""
        import ctypes

        class Hdr(ctypes.Structure):
            _fields_ = [("version", ctypes.c_uint32), ("pid", ctypes.c_int)]

        class Data(ctypes.Structure):
            _fields_ = [("effective", ctypes.c_uint32),
                        ("permitted", ctypes.c_uint32),
                        ("inheritable", ctypes.c_uint32)]

        libc = ctypes.CDLL(None, use_errno=True)
        hdr = Hdr(0x20080522, 0)  # _LINUX_CAPABILITY_VERSION_3
        data = (Data * 2)()
        if libc.capget(ctypes.byref(hdr), data) != 0:
            raise HarnessError("capget failed")
        mask = ~((1 << 1) | (1 << 2) | (1 << 3)) & 0xffffffff
        data[0].effective &= mask
        data[0].permitted &= mask
        data[0].inheritable &= mask
        if libc.capset(ctypes.byref(hdr), data) != 0:
            raise HarnessError("capset failed")
        probe = os.path.join(sb.root, ".perm_probe")
        with open(probe, "w") as f:
            f.write("x")
        os.chmod(probe, 0o444)
        writable = os.access(probe, os.W_OK)
        os.chmod(probe, 0o644)
        os.remove(probe)
        if writable:
            raise HarnessError("permission bits still do not apply")

    def _execute_inner(self, case) -> RunResult:
        evo = self.evo
        sb = self.sb
        res = RunResult()
        data = self._data(case["seed"] % 5)
        self._cur_data = data
        sb.reset()
        # names of temporary files are part of the event log: seeded, like
        # every other choice of a run
        import hashlib
        import tempfile

        class _Names:
            def __init__(self, seed):
                self.seed, self.k = seed, 0

            def __iter__(self):
                return self

            def __next__(self):
                self.k += 1
                return hashlib.sha256(
                    f"{self.seed}:{self.k}".encode()).hexdigest()[:8]

        tempfile._name_sequence = _Names(case["seed"])
        os.makedirs(os.path.join(sb.root, "store_dir", "deep"))
        os.symlink(os.path.join("store_dir", "deep"),
                   os.path.join(sb.root, "lnk"))
        if case.get("unprivileged"):
            # the rest of this history runs as an ordinary user: file
            # permissions apply (the harness itself usually runs as root, for
            # which every existing file is writable)
            if os.geteuid() == 0:
                try:
                    self._become_ordinary_user(sb)
                except HarnessError:
                    # capabilities cannot be dropped here: write-protected
                    # targets then behave like ordinary ones (less coverage,
                    # nothing wrong)
                    res.stats["ordinary_user_unavailable"] += 1
            res.stats["probe.history_as_ordinary_user"] += 1
        # evo's own settings are loaded already; from here on "~" is the
        # sandbox, so a literal "~/name" output path names a sandbox file
        os.environ["HOME"] = sb.root
        trail = []
        violation = None
        S = evo.settings.SETTINGS
        saved_settings = dict(S)
        import matplotlib.pyplot as plt
        seen_paths = set()
        met_existing = False
        try:
            with contextlib.redirect_stdout(io.StringIO()):
                data.write_inputs(evo)
            for oi, op in enumerate(case["ops"]):
                # plant pre-existing targets
                prng = random.Random(case["seed"] * 1000 + oi)
                dir_times = {}
                for rel, how in sorted(op.get("pre", {}).items()):
                    if os.path.dirname(rel):
                        os.makedirs(os.path.dirname(rel), exist_ok=True)
                    dname = os.path.dirname(rel) or "."
                    if dname not in dir_times:
                        st_d = os.stat(dname)
                        dir_times[dname] = (st_d.st_atime_ns, st_d.st_mtime_ns)
                    if how == "keep" and os.path.exists(rel):
                        continue
                    blob = bytes(prng.getrandbits(8)
                                 for _ in range(prng.randint(1, 64)))
                    if how == "empty":
                        # a placeholder (touch, mktemp) or the output another
                        # job has just opened
                        blob = b""
                        res.stats["probe.target_is_empty_file"] += 1
                    if os.path.lexists(rel) and not os.path.islink(rel) \
                            and not os.path.isdir(rel):
                        os.chmod(rel, 0o644)  # re-planting over our own file
                    if how == "symlink":
                        # the target is a link to an existing file elsewhere
                        os.makedirs("store", exist_ok=True)
                        real = os.path.join(
                            "store", f"{oi}_" + os.path.basename(rel))
                        with open(real, "wb") as f:
                            f.write(blob)
                        if os.path.lexists(rel):
                            os.unlink(rel)
                        link_text = os.path.join(sb.root, real)
                        if prng.random() < 0.5:
                            # a relative link: its text is resolved against the
                            # link's own directory, not against the cwd
                            # (seeded defect c17za)
                            link_text = os.path.relpath(
                                link_text, os.path.join(
                                    sb.root, os.path.dirname(rel)))
                            res.stats["probe.target_is_relative_symlink" + (
                                "_in_subdirectory" if os.path.dirname(rel)
                                else "")] += 1
                        os.symlink(link_text, rel)
                        res.stats["probe.target_is_symlink"] += 1
                        continue
                    if os.path.islink(rel):
                        os.unlink(rel)
                    with open(rel, "wb") as f:
                        f.write(blob)
                    if how == "readonly":
                        # a write-protected file (mode 0444) of the same user
                        os.chmod(rel, 0o444)
                        res.stats["probe.target_is_write_protected"] += 1
                    if prng.random() < 0.08:
                        # odd but valid file times: the epoch, or far beyond
                        # year 9999 (what CIFS reports for "never")
                        when = prng.choice([0, 2**31 + 5, 253402300800 + 86400,
                                            3 * 10**11])
                        os.utime(rel, (when, when))
                        res.stats["probe.target_with_odd_file_time"] += 1
                if dir_times and prng.random() < 0.35:
                    # the files arrived the way tar / rsync -a / cp -a bring
                    # them (directory times restored afterwards), or on a file
                    # system with coarse time stamps: the directory's mtime
                    # does not tell that its content changed
                    for dname, times in dir_times.items():
                        os.utime(dname, ns=times)
                    res.stats["probe.targets_arrived_with_directory_times_"
                              "restored"] += 1
                if "opts" in op and op_config(op):
                    with open("in/opcfg.json", "w") as f:
                        json.dump(op_config(op), f)
                    if op.get("via_config"):
                        res.stats["probe.output_path_from_config"] += 1
                before = sb.snapshot()
                S["plot_split"] = bool(op.get("plot_split"))
                S["plot_backend"] = "Agg"
                for k, v in op.get("settings", {}).items():
                    S[k] = v
                fn = self._make_fn(op, data)
                out = io.StringIO()
                with contextlib.redirect_stdout(out), \
                        contextlib.redirect_stderr(out):
                    late = None
                    if op.get("late"):
                        late = dict(op["late"], data=bytes(
                            prng.getrandbits(8)
                            for _ in range(prng.choice([40, 40, 0]))))
                    saved_fd = None
                    tgt = op.get("fd1_to")
                    if tgt and os.path.isfile(tgt) and not os.path.islink(tgt):
                        # `evo_x ... --save_y report.csv >> report.csv`: the
                        # process' standard output is appended to the very
                        # file it is asked to save to
                        try:
                            fd = os.open(tgt, os.O_WRONLY | os.O_APPEND)
                        except PermissionError:
                            fd = None  # write-protected: the shell refuses
                        if fd is not None:
                            saved_fd = os.dup(1)
                            os.dup2(fd, 1)
                            os.close(fd)
                            res.stats[
                                "probe.stdout_appends_to_the_target"] += 1
                    try:
                        events, exc = sb.run(fn, op.get("answers", ()),
                                             op.get("fault"), late=late)
                    finally:
                        if saved_fd is not None:
                            os.dup2(saved_fd, 1)
                            os.close(saved_fd)
                plt.close("all")
                S.clear()
                S.update(saved_settings)
                after = sb.snapshot()
                exact, globs = expected_outputs(op)
                if any(p in before for p in exact) or any(
                        fnmatch.fnmatch(b, g) for b in before for g in globs):
                    met_existing = True
                if any(p in seen_paths for p in exact):
                    res.stats["probe.same_process_second_save"] += 1
                seen_paths.update(exact)
                violation = self._oracle(
                    op, events, exc, before, after, res, out.getvalue(),
                    {late["path"]: late["data"]} if late else None)
                trail.append([op["kind"], [list(e[:2]) if e[0] == "planted"
                                           else list(e) for e in events
                                           if e[0] != "open_r"],
                              type(exc).__name__ if exc else None,
                              sorted((k, digest_of(v[0])) for k, v in
                                     after.items() if not k.startswith("in"))])
                res.stats["op." + op["kind"]] += 1
                if violation is not None:
                    violation["detail"]["op_index"] = oi
                    violation["detail"]["op"] = {k: v for k, v in op.items()}
                    break
        finally:
            S.clear()
            S.update(saved_settings)
            sb.close()
        res.violation = violation
        # file bytes of zips/pdfs embed wall-clock timestamps: the digest uses
        # the event log and the digests of text outputs only
        stable = [[t[0], t[1], t[2],
                   [x for x in t[3] if x[0].endswith((".tum", ".kitti",
                                                      ".csv", ".json"))]]
                  for t in trail]
        res.digest = digest_of([stable, violation["sig"] if violation else 0])
        res.steps = sum(len(t[1]) for t in trail)
        if met_existing:
            res.nontrivial_key = res.digest
        res.aux["cells"] = [tuple(c) for c in case.get("cells", [])]
        return res

    # --------------------------------------------------------------- oracle
    def _fail(self, op, what, **detail):
        return {"class": what, "sig": f"C17:{op['kind']}:{what}",
                "detail": dict(detail, what=what)}

    def _oracle(self, op, events, exc, before, after, res, stdout,
                late_data=None):
        late_data = late_data or {}
        W = warnings_on(op)
        exact, globs = expected_outputs(op)
        fault = next((e for e in events if e[0] == "fault"), None)
        if fault:
            res.stats["fault.disk_error_on_confirmed_write"] += 1
            res.stats["probe.disk_fault_fired"] += 1
        # prompts with the path they are about
        prompts = []  # (idx, path | None, answer)
        last_warn = None
        for i, e in enumerate(events):
            if e[0] == "warn":
                last_warn = e[1]
            elif e[0] == "prompt":
                if op["kind"] == "cli_fig" and last_warn is None and (
                        FIG_IN in str(e[1])):
                    # evo_fig's closing question names the file it is about
                    # itself: the plot collection that was opened
                    last_warn = FIG_IN
                    res.stats["probe.evo_fig_rewrite_question_" + (
                        "y" if e[2] == "y" else "other")] += 1
                prompts.append((i, last_warn, e[2]))
                last_warn = None
                a = e[2]
                cls = ("y" if a == "y" else "n" if a == "n" else
                       "empty" if a == "" else "eof" if a == "<EOF>" else
                       "interrupt" if a == "<INT>" else "other")
                res.stats["probe.prompt_answered_" + cls] += 1
        if op["kind"].startswith("lib_"):
            res.stats["probe.target_path" if op.get("as_path") else
                      "probe.target_str"] += 1
        peer_fault = any(p[2] in ("<EOF>", "<INT>") for p in prompts)
        unexpected_exc = exc is not None and not peer_fault and not fault
        if isinstance(exc, SystemExit) and exc.code in (None, 0):
            unexpected_exc = False
        if unexpected_exc:
            res.stats["unexpected_op_exceptions"] += 1
            res.aux.setdefault("unexpected", []).append(
                f"{op['kind']}: {type(exc).__name__}: {str(exc)[:120]}")

        if unexpected_exc and isinstance(exc, (
                TypeError, AttributeError, NameError)) and (
                    any(p in before for p in exact) or any(
                        fnmatch.fnmatch(b, g) for b in before for g in globs)):
            # not a refusal and not a failing disk: the writer broke down on a
            # valid call (str or pathlib.Path destination) whose target exists
            # - it neither asks nor replaces
            return self._fail(op, "writer-crashed-on-existing-target",
                              exception=f"{type(exc).__name__}: "
                              f"{str(exc)[:160]}",
                              path_type="pathlib.Path" if op.get("as_path")
                              else "str")
        # a file that another job dropped into the sandbox while the operation
        # was running is an existing file from that moment on
        planted_at = {}
        for i, e in enumerate(events):
            if e[0] == "planted":
                planted_at[e[1]] = i
                before = dict(before)
                before[e[1]] = (late_data.get(e[1], b""), e[2])
                res.stats["probe.target_appeared_during_command"] += 1
        # paths that are the same file (a symlink and the file it points to)
        by_ino = {}
        for path, (_b, ino) in before.items():
            by_ino.setdefault(ino, set()).add(path)

        def group(P):
            return by_ino.get(before[P][1], {P}) if P in before else {P}

        def mut_idx(P):
            names = group(P)
            out = []
            for i, e in enumerate(events):
                if i <= planted_at.get(P, -1):
                    continue
                if e[0] in sandbox.MUTATING and any(n in e[1:] for n in names):
                    out.append(i)
            return out

        # a 'y' that no "<path> exists, overwrite?" record announces only
        # counts as a confirmation if the question itself is about overwriting
        unattributed_y = [i for i, path, a in prompts
                          if a == "y" and path is None
                          and "overwrite" in str(events[i][1]).lower()]
        used_unattributed = 0
        declined_any = False
        for P, (old_bytes, old_ino) in sorted(before.items()):
            muts = mut_idx(P)
            new = after.get(P)
            changed = new is None or new[0] != old_bytes
            ys = [i for i, path, a in prompts
                  if a == "y" and path in group(P)
                  and i > planted_at.get(P, -1)]
            # prompts that are, or may be, about P (no announcing record: the
            # question text mentions overwriting or the file's name)
            asked = [i for i, path, a in prompts if path in group(P) or (
                path is None and (
                    "overwrite" in str(events[i][1]).lower()
                    or os.path.basename(P) in str(events[i][1])))]
            is_target = P in exact or any(fnmatch.fnmatch(P, g)
                                          for g in globs)
            if P.startswith("store/") and len(group(P)) > 1:
                continue  # judged through the link that names it
            if P.startswith("in/") or P.startswith("in2/"):
                if muts or changed:
                    return self._fail(op, "input-file-modified", path=P)
                continue
            if not muts:
                if changed:
                    return self._fail(op, "file-changed-without-event",
                                      path=P)
                if is_target and P in exact:
                    if W and asked and not ys and not any(
                            i in unattributed_y for i in asked):
                        declined_any = True
                        res.stats["probe.declined_kept"] += 1
                    confirmed = (not W) or bool(ys) or (
                        not ys and any(i in unattributed_y for i in asked))
                    if (confirmed and exc is None and not fault
                            and self._reached(op, P, exact, before, prompts,
                                              W)):
                        return self._fail(
                            op, "confirmed-not-replaced", path=P,
                            warnings_on=W,
                            prompts=[list(p) for p in prompts])
                    if (W and not asked and exc is None and not fault
                            and self._reached(op, P, exact, before, prompts,
                                              W)):
                        return self._fail(op, "no-confirmation-asked", path=P)
                continue
            # P was touched
            if W:
                ok = any(y < muts[0] for y in ys)
                if not ok and any(y < muts[0] for y in
                                  unattributed_y[used_unattributed:]):
                    used_unattributed += 1
                    ok = True
                if not ok:
                    return self._fail(
                        op, "overwrite-without-confirmation", path=P,
                        first_mutating_event=list(events[muts[0]]),
                        prompts=[list(p) for p in prompts],
                        content_changed=changed)
            else:
                res.stats["probe.no_warnings_overwrite"] += 1
                if op.get("no_warnings_via_config"):
                    res.stats["probe.no_warnings_via_config"] += 1
            if is_target and exc is None and not fault:
                if new is None or not valid_for(self.evo, op, P, new[0]):
                    return self._fail(op, "replaced-by-invalid-output", path=P,
                                      size=None if new is None else len(new[0]))
                res.stats["probe.confirmed_replaced"] += 1
        # prompts although warnings are disabled
        if not W and prompts:
            return self._fail(op, "prompt-with-warnings-disabled",
                              prompts=[list(p) for p in prompts])
        # nothing else is written in the place of a declined target
        for P in sorted(set(after) - set(before)):
            if P in exact or any(fnmatch.fnmatch(P, g) for g in globs):
                if exc is None and not fault and not valid_for(
                        self.evo, op, P, after[P][0]):
                    return self._fail(op, "invalid-new-output", path=P)
                continue
            if fault or exc is not None:
                continue  # a left-over temporary file after a failed write
            return self._fail(op, "unexpected-new-file", path=P,
                              expected=exact + globs)
        if declined_any and len(exact) > 1:
            later = [p for p in exact if p not in before and p not in after]
            if later:
                res.stats["probe.multi_file_export_declined_midway"] += 1
        if collision_paths(op):
            res.stats["probe.colliding_outputs_in_one_command"] += 1
            v = self._colliding(op, events, prompts, before, after, exc, W)
            if v:
                return v
        return None

    def _reached(self, op, P, exact, before, prompts, W):
        """was the writer of P certainly reached?  True only for the first
        expected output (later ones may be skipped after a decline or after
        an earlier step of the command)"""
        return bool(exact) and exact[0] == P

    def _colliding(self, op, events, prompts, before, after, exc, W):
        """several outputs of ONE command land on the same path (inputs with
        equal stems, --ref with the stem of an input, the same file name
        given to two options): every export after the first meets the file
        the previous one just created and must ask.  Decided on the content
        that is left in the end: it must be the export the answers select."""
        if not W or exc is not None:
            return None
        for P in collision_paths(op):
            answers = [a for _i, path, a in prompts if path == P]
            exports = self._exports_to(op, P)
            if len(exports) < 2:
                continue
            cur = "pre" if P in before else None
            k = 0
            for ex in exports:
                if cur is None:
                    cur = ex  # nothing there yet: written without a question
                    continue
                if k >= len(answers):
                    cur = "unknown"  # fewer questions than exports
                    break
                if answers[k] == "y":
                    cur = ex
                k += 1
            if cur in ("pre", "unknown", None) or P not in after:
                if cur == "unknown":
                    # an export that met an existing file without asking
                    return self._fail(op, "later-output-overwrote-earlier-one",
                                      path=P, exports=exports,
                                      answers=answers)
                continue
            got = self._identify(P, after[P][0])
            if got is not None and got != cur:
                return self._fail(op, "later-output-overwrote-earlier-one",
                                  path=P, expected_content=cur,
                                  actual_content=got, answers=answers)
        return None

    def _exports_to(self, op, P):
        """labels of the exports that go to path P, in the order of writing"""
        o = op["opts"]
        out = []
        if op["kind"] == "cli_traj" and P.endswith((".tum", ".kitti")):
            names = [f for f in op["inputs"] if f != o.get("ref")] + (
                [o["ref"]] if o.get("ref") else [])
            if o.get("merge") or o.get("align") or o.get("sync"):
                return []  # exported data is not simply one of the inputs
            stem = os.path.splitext(P)[0]
            for f in names:
                if os.path.splitext(os.path.basename(f))[0] == stem:
                    out.append("traj:" + f)
            return out
        for key in ("save_plot", "serialize_plot", "save_results",
                    "save_table"):
            if o.get(key) == P:
                out.append(key)
        if op["kind"] == "cli_res":
            out.sort(key=["save_table", "save_plot", "serialize_plot"].index)
        return out

    def _identify(self, P, data_bytes):
        """which export does this content come from?"""
        if P.endswith((".tum", ".kitti")):
            try:
                rows = np.array([[float(x) for x in l.split()]
                                 for l in data_bytes.decode().splitlines()
                                 if l.strip()])
            except ValueError:
                return None
            files = {"in/ref.txt": 0, "in/est.txt": 1, "in2/est.txt": 2}
            for f, k in files.items():
                pos = self._cur_data.trajs[k].positions_xyz
                cols = rows[:, 1:4] if P.endswith(".tum") else rows[:, [3, 7,
                                                                         11]]
                if cols.shape == pos.shape and np.allclose(cols, pos,
                                                           atol=1e-9):
                    return "traj:" + f
            return None
        if data_bytes[:2] == b"PK":
            return "save_results"
        if data_bytes[:1] == b"\x80":
            return "serialize_plot"
        if data_bytes[:5] == b"%PDF-" or data_bytes[:4] == b"\x89PNG":
            return "save_plot"
        return None

    # ------------------------------------------------------------ shrinking
    def shrink_candidates(self, case):
        ops = case["ops"]
        n = len(ops)
        size = max(1, n // 2)
        while size >= 1:
            for i in range(0, n, size):
                c = copy.deepcopy(case)
                del c["ops"][i:i + size]
                if c["ops"]:
                    yield c
            size //= 2
        for i, op in enumerate(ops):
            if op.get("fault"):
                c = copy.deepcopy(case)
                del c["ops"][i]["fault"]
                yield c
            if len(op.get("pre", {})) > 1:
                for k in op["pre"]:
                    c = copy.deepcopy(case)
                    del c["ops"][i]["pre"][k]
                    yield c
            o = op.get("opts")
            if o and len(o) > 1:
                for k in list(o):
                    c = copy.deepcopy(case)
                    del c["ops"][i]["opts"][k]
                    if any(x in c["ops"][i]["opts"] for x in (
                            "save_results", "save_plot", "serialize_plot",
                            "save_table", "save_as_tum", "save_as_kitti")):
                        yield c

    def describe(self, case):
        out = []
        for op in case["ops"]:
            d = {"kind": op["kind"], "pre_existing": op.get("pre"),
                 "answers": op.get("answers"),
                 "warnings_on": warnings_on(op)}
            if "path" in op:
                d["path"] = op["path"]
                d["as_pathlib"] = op.get("as_path")
            if "opts" in op:
                d["argv"] = cli_argv(op)
            if op.get("fault"):
                d["disk_fault"] = op["fault"]
            out.append(d)
        return {"kind": case.get("kind"), "ops": out}

    def extra_evidence(self, agg):
        cells = agg.aux_sets.get("cells", set())
        total = getattr(self, "matrix_cells", None)
        return {"configuration_matrix": {
            "cells_total": total, "cells_visited": len(cells),
            "axes": "sink x {exists, not} x {y, n, empty, other} x "
                    "{warnings on, off} x {str, Path (library writers)}"}}


CHECK = C17()
