"""
Engine E1, part 1: SimFS - an in-memory POSIX-like disk - and the dispatchers
that route Python-level file access on paths below SIM_ROOT to it.

Everything evo does to ~/.evo goes through builtins.open / io.open / os.* /
pathlib / tempfile.  Those names are replaced once per interpreter by
dispatchers: sim path (or sim fd) -> the active SimFS, anything else -> the
saved real function.  File objects handed out are the *real* C buffered/text
layers on top of SimRaw, so the raw write()s SimFS sees are those CPython
would issue as write(2).
"""
from __future__ import annotations

import builtins
import errno
import io
import os
import stat as statmod
import threading

SIM_ROOT = "/vhome"
FD_BASE = 1_000_000


class SimUnsupported(Exception):
    """evo (or a repair of it) used a seam SimFS does not model."""


class SimCrash(BaseException):
    """raised inside a virtual process that was killed"""


# ---------------------------------------------------------------------------


class Inode:
    __slots__ = ("ino", "kind", "data", "mode", "mtime", "nlink", "version")

    def __init__(self, ino, kind, mode, now):
        self.ino = ino
        self.kind = kind  # 'f' | 'd'
        self.data = bytearray() if kind == "f" else None
        self.mode = mode
        self.mtime = now
        self.nlink = 1
        self.version = 0


class OFD:
    """open file description"""
    __slots__ = ("inode", "flags", "offset", "path", "owner", "closed")

    def __init__(self, inode, flags, path, owner):
        self.inode = inode
        self.flags = flags
        self.offset = 0
        self.path = path
        self.owner = owner
        self.closed = False


def _err(code, path=None):
    return OSError(code, os.strerror(code), path)


class SimFS:
    def __init__(self):
        self.now = 0.0
        self._ino = 100
        self.ents = {}
        self.fds = {}
        self._next_fd = FD_BASE
        self.ents["/"] = self._new_inode("d", 0o755)
        self.ents[SIM_ROOT] = self._new_inode("d", 0o755)
        # bookkeeping for oracles
        self.events = []  # (op, path, detail) of mutating + reading ops
        self.mutations = 0
        # advisory whole-file locks (flock / lockf): ino -> {fd: (owner, ex)}
        self.locks = {}

    # -- helpers
    def _new_inode(self, kind, mode):
        self._ino += 1
        return Inode(self._ino, kind, mode, self.now)

    @staticmethod
    def norm(path) -> str:
        p = os.fspath(path)
        if isinstance(p, bytes):
            p = p.decode()
        p = os.path.normpath(p)
        return p

    def _parent_dir(self, p):
        parent = os.path.dirname(p)
        pi = self.ents.get(parent)
        if pi is None:
            # distinguish ENOENT / ENOTDIR on any component
            q = parent
            while q not in self.ents and q != "/":
                q = os.path.dirname(q)
            if self.ents[q].kind != "d":
                raise _err(errno.ENOTDIR, p)
            raise _err(errno.ENOENT, p)
        if pi.kind != "d":
            raise _err(errno.ENOTDIR, p)
        return pi

    def lookup(self, p):
        return self.ents.get(p)

    def log(self, op, path, detail=None):
        self.events.append((op, path, detail))

    # -- direct (harness) access
    def read_bytes(self, p):
        i = self.ents.get(p)
        if i is None or i.kind != "f":
            return None
        return bytes(i.data)

    def write_bytes(self, p, data: bytes, mode=0o644):
        self._parent_dir(p)
        i = self.ents.get(p)
        if i is None:
            i = self._new_inode("f", mode)
            self.ents[p] = i
        i.data[:] = data
        i.version += 1
        i.mtime = self.now

    def make_dirs(self, p):
        parts = []
        while p not in self.ents:
            parts.append(p)
            p = os.path.dirname(p)
        for q in reversed(parts):
            self.ents[q] = self._new_inode("d", 0o755)

    def remove_tree(self, p):
        for k in [k for k in self.ents if k == p or k.startswith(p + "/")]:
            del self.ents[k]

    def snapshot(self):
        """path -> bytes | None (directory), for state digests"""
        # evo.log (optional global log file) carries source line numbers and
        # belongs to no property: it is left out of state digests
        return {
            k: (bytes(v.data) if v.kind == "f" else None)
            for k, v in sorted(self.ents.items())
            if not k.endswith("/evo.log")
        }

    # -- operations (POSIX semantics)
    def op_open(self, path, flags, mode=0o666, owner=None):
        p = self.norm(path)
        self._parent_dir(p)
        i = self.ents.get(p)
        acc = flags & os.O_ACCMODE
        if i is None:
            if not flags & os.O_CREAT:
                raise _err(errno.ENOENT, p)
            i = self._new_inode("f", mode & 0o777)
            self.ents[p] = i
            self.mutations += 1
            self.log("create", p)
        else:
            if flags & os.O_CREAT and flags & os.O_EXCL:
                raise _err(errno.EEXIST, p)
            if i.kind == "d":
                if acc != os.O_RDONLY or flags & os.O_CREAT:
                    raise _err(errno.EISDIR, p)
            else:
                want_w = acc in (os.O_WRONLY, os.O_RDWR)
                if want_w and not i.mode & 0o200:
                    raise _err(errno.EACCES, p)
                if acc in (os.O_RDONLY, os.O_RDWR) and not i.mode & 0o400:
                    raise _err(errno.EACCES, p)
                if flags & os.O_TRUNC and want_w:
                    if len(i.data):
                        self.mutations += 1
                    del i.data[:]
                    i.version += 1
                    i.mtime = self.now
                    self.log("truncate", p, 0)
        fd = self._next_fd
        self._next_fd += 1
        self.fds[fd] = OFD(i, flags, p, owner)
        if not (flags & os.O_ACCMODE) in (os.O_WRONLY, os.O_RDWR):
            self.log("open_r", p)
        return fd

    def _ofd(self, fd):
        o = self.fds.get(fd)
        if o is None or o.closed:
            raise _err(errno.EBADF)
        return o

    def op_close(self, fd):
        o = self._ofd(fd)
        o.closed = True
        del self.fds[fd]
        held = self.locks.get(o.inode.ino)
        if held and fd in held:
            del held[fd]

    def op_flock(self, fd, exclusive, unlock=False):
        """advisory lock on the whole file; -> True if granted"""
        o = self._ofd(fd)
        held = self.locks.setdefault(o.inode.ino, {})
        if unlock:
            held.pop(fd, None)
            return True
        others = {k: v for k, v in held.items()
                  if k != fd and v[0] != o.owner}
        if exclusive and others:
            return False
        if not exclusive and any(ex for (_own, ex) in others.values()):
            return False
        held[fd] = (o.owner, exclusive)
        self.log("flock", o.path, "ex" if exclusive else "sh")
        return True

    def lock_grantable(self, fd, exclusive, owner):
        o = self.fds.get(fd)
        if o is None:
            return True
        held = self.locks.get(o.inode.ino, {})
        others = {k: v for k, v in held.items()
                  if k != fd and v[0] != owner}
        if exclusive:
            return not others
        return not any(ex for (_own, ex) in others.values())

    def release_process(self, owner):
        """process exit or kill: the kernel closes its descriptors and drops
        its locks"""
        for fd in [fd for fd, o in self.fds.items() if o.owner == owner]:
            try:
                self.op_close(fd)
            except OSError:
                pass

    def op_read(self, fd, n):
        o = self._ofd(fd)
        if (o.flags & os.O_ACCMODE) == os.O_WRONLY:
            raise _err(errno.EBADF)
        if o.inode.kind == "d":
            raise _err(errno.EISDIR)
        data = bytes(o.inode.data[o.offset:o.offset + n])
        o.offset += len(data)
        self.log("read", o.path, len(data))
        return data

    def op_write(self, fd, data):
        o = self._ofd(fd)
        if (o.flags & os.O_ACCMODE) == os.O_RDONLY:
            raise _err(errno.EBADF)
        i = o.inode
        if o.flags & os.O_APPEND:
            o.offset = len(i.data)
        n = len(data)
        if n == 0:
            return 0
        if o.offset > len(i.data):
            i.data.extend(b"\0" * (o.offset - len(i.data)))
        i.data[o.offset:o.offset + n] = data
        o.offset += n
        i.version += 1
        i.mtime = self.now
        self.mutations += 1
        self.log("write", o.path, n)
        return n

    def op_lseek(self, fd, off, whence):
        o = self._ofd(fd)
        if whence == 0:
            new = off
        elif whence == 1:
            new = o.offset + off
        elif whence == 2:
            new = len(o.inode.data) + off
        else:
            raise _err(errno.EINVAL)
        if new < 0:
            raise _err(errno.EINVAL)
        o.offset = new
        return new

    def op_ftruncate(self, fd, n):
        o = self._ofd(fd)
        if (o.flags & os.O_ACCMODE) == os.O_RDONLY:
            raise _err(errno.EINVAL)
        i = o.inode
        if n < len(i.data):
            del i.data[n:]
        else:
            i.data.extend(b"\0" * (n - len(i.data)))
        i.version += 1
        i.mtime = self.now
        self.mutations += 1
        self.log("truncate", o.path, n)

    def _stat_of(self, i):
        mode = (statmod.S_IFDIR if i.kind == "d" else statmod.S_IFREG) | i.mode
        size = 0 if i.kind == "d" else len(i.data)
        return os.stat_result(
            (mode, i.ino, 64, i.nlink, 0, 0, size, int(i.mtime), int(i.mtime),
             int(i.mtime)))

    def op_fstat(self, fd):
        return self._stat_of(self._ofd(fd).inode)

    def op_stat(self, path):
        p = self.norm(path)
        i = self.ents.get(p)
        if i is None:
            self._parent_dir(p)
            raise _err(errno.ENOENT, p)
        self.log("stat", p)
        return self._stat_of(i)

    def op_access(self, path, mode):
        p = self.norm(path)
        i = self.ents.get(p)
        self.log("access", p)
        if i is None:
            return False
        if mode & os.W_OK and not i.mode & 0o200:
            return False
        if mode & os.R_OK and not i.mode & 0o400:
            return False
        if mode & os.X_OK and not i.mode & 0o100:
            return False
        return True

    def op_mkdir(self, path, mode=0o777):
        p = self.norm(path)
        self._parent_dir(p)
        if p in self.ents:
            raise _err(errno.EEXIST, p)
        self.ents[p] = self._new_inode("d", mode & 0o777)
        self.mutations += 1
        self.log("mkdir", p)

    def op_rmdir(self, path):
        p = self.norm(path)
        i = self.ents.get(p)
        if i is None:
            raise _err(errno.ENOENT, p)
        if i.kind != "d":
            raise _err(errno.ENOTDIR, p)
        if any(k.startswith(p + "/") for k in self.ents):
            raise _err(errno.ENOTEMPTY, p)
        del self.ents[p]
        self.mutations += 1
        self.log("rmdir", p)

    def op_listdir(self, path):
        p = self.norm(path)
        i = self.ents.get(p)
        if i is None:
            raise _err(errno.ENOENT, p)
        if i.kind != "d":
            raise _err(errno.ENOTDIR, p)
        pre = p.rstrip("/") + "/"
        self.log("listdir", p)
        return sorted(k[len(pre):] for k in self.ents
                      if k.startswith(pre) and "/" not in k[len(pre):])

    def op_rename(self, src, dst):
        s, d = self.norm(src), self.norm(dst)
        si = self.ents.get(s)
        if si is None:
            self._parent_dir(s)
            raise _err(errno.ENOENT, s)
        self._parent_dir(d)
        di = self.ents.get(d)
        if s == d:
            return
        if di is not None:
            if di.kind == "d" and si.kind != "d":
                raise _err(errno.EISDIR, d)
            if di.kind != "d" and si.kind == "d":
                raise _err(errno.ENOTDIR, d)
            if di.kind == "d" and any(
                    k.startswith(d + "/") for k in self.ents):
                raise _err(errno.ENOTEMPTY, d)
            di.nlink -= 1
        if si.kind == "d":
            moved = [(k, v) for k, v in self.ents.items()
                     if k.startswith(s + "/")]
            for k, v in moved:
                del self.ents[k]
                self.ents[d + k[len(s):]] = v
        del self.ents[s]
        self.ents[d] = si
        self.mutations += 1
        self.log("rename", s, d)

    def op_unlink(self, path):
        p = self.norm(path)
        i = self.ents.get(p)
        if i is None:
            self._parent_dir(p)
            raise _err(errno.ENOENT, p)
        if i.kind == "d":
            raise _err(errno.EISDIR, p)
        i.nlink -= 1
        del self.ents[p]
        self.mutations += 1
        self.log("unlink", p)

    def op_link(self, src, dst):
        s, d = self.norm(src), self.norm(dst)
        si = self.ents.get(s)
        if si is None:
            raise _err(errno.ENOENT, s)
        if si.kind == "d":
            raise _err(errno.EPERM, s)
        self._parent_dir(d)
        if d in self.ents:
            raise _err(errno.EEXIST, d)
        self.ents[d] = si
        si.nlink += 1
        self.mutations += 1
        self.log("link", s, d)

    def op_chmod(self, path, mode):
        p = self.norm(path)
        i = self.ents.get(p)
        if i is None:
            raise _err(errno.ENOENT, p)
        i.mode = mode & 0o777
        self.log("chmod", p, mode & 0o777)

    def op_utime(self, path, times):
        p = self.norm(path)
        i = self.ents.get(p)
        if i is None:
            raise _err(errno.ENOENT, p)
        i.mtime = self.now if times is None else times[1]

    def op_truncate(self, path, n):
        p = self.norm(path)
        i = self.ents.get(p)
        if i is None:
            raise _err(errno.ENOENT, p)
        if i.kind == "d":
            raise _err(errno.EISDIR, p)
        if n < len(i.data):
            del i.data[n:]
        else:
            i.data.extend(b"\0" * (n - len(i.data)))
        i.version += 1
        self.mutations += 1
        self.log("truncate", p, n)


# ---------------------------------------------------------------------------
# the process-wide seam: ACTIVE simulation + dispatchers


class _Seam:
    """
    `gate` is the object through which every operation on a sim path passes:
    gate.call(opname, target, thunk, kind) runs the yield point / fault logic of
    the scheduler (vproc.py) and then the thunk.  With no simulation active,
    sim paths are an error.
    """
    fs: SimFS | None = None
    gate = None


SEAM = _Seam()


def is_sim_path(p) -> bool:
    try:
        s = os.fspath(p)
    except TypeError:
        return False
    if isinstance(s, bytes):
        try:
            s = s.decode()
        except UnicodeDecodeError:
            return False
    return s == SIM_ROOT or s.startswith(SIM_ROOT + "/")


def is_sim_fd(fd) -> bool:
    return isinstance(fd, int) and not isinstance(fd, bool) and fd >= FD_BASE


def _gate(op, target, thunk, kind="effect", nbytes=None):
    """
    kind: 'effect'  - visible disk effect or read of shared state: yield point
          'cleanup' - write/close-like op: a dead process silently does nothing
          'local'   - no yield point (close, lseek, fstat)
    """
    g = SEAM.gate
    if SEAM.fs is None:
        raise SimUnsupported(f"sim path used outside a simulation: {target}")
    if g is None:
        return thunk(None)
    return g.call(op, target, thunk, kind, nbytes)


class SimRaw(io.RawIOBase):
    """raw file on SimFS; the real Buffered*/TextIOWrapper sit on top"""
    def __init__(self, fd, mode, name, closefd=True):
        super().__init__()
        self._fd = fd
        self._fs = SEAM.fs  # a raw file outliving its run must not touch
        self.mode = mode    # the next run's disk (fd numbers restart)
        self.name = name
        self._closefd = closefd
        self._readable = "r" in mode or "+" in mode
        self._writable = any(c in mode for c in "wxa+")

    def readable(self):
        return self._readable

    def writable(self):
        return self._writable

    def seekable(self):
        return True

    def fileno(self):
        return self._fd

    def isatty(self):
        return False

    def _stale(self):
        return SEAM.fs is not self._fs

    def readinto(self, b):
        if self._stale():
            return 0
        data = sim_os_read(self._fd, len(b))
        n = len(data)
        b[:n] = data
        return n

    def write(self, b):
        if self.closed:
            raise ValueError("write to closed file")
        if self._stale():
            return len(b)
        return sim_os_write(self._fd, bytes(b), chunkable=True)

    def seek(self, off, whence=0):
        if self._stale():
            return 0
        return SEAM.fs.op_lseek(self._fd, off, whence)

    def tell(self):
        if self._stale():
            return 0
        return SEAM.fs.op_lseek(self._fd, 0, 1)

    def truncate(self, size=None):
        if self._stale():
            return 0
        if size is None:
            size = self.tell()
        sim_os_ftruncate(self._fd, size)
        return size

    def close(self):
        if not self.closed:
            try:
                super().close()
            finally:
                if self._closefd and not self._stale():
                    try:
                        sim_os_close(self._fd)
                    except OSError:
                        pass


def sim_os_open(path, flags, mode=0o777, *, dir_fd=None):
    if dir_fd is not None:
        raise SimUnsupported("dir_fd on sim path")
    g = SEAM.gate
    owner = g.current_owner() if g is not None else None
    return _gate("open", SimFS.norm(path),
                 lambda f: SEAM.fs.op_open(path, flags, mode, owner),
                 "effect")


def sim_os_close(fd):
    return _gate("close", fd, lambda f: SEAM.fs.op_close(fd), "local")


def sim_os_read(fd, n):
    return _gate("read", fd, lambda f: SEAM.fs.op_read(fd, n), "effect")


def sim_os_write(fd, data, chunkable=False):
    data = bytes(data)

    def thunk(limit):
        if limit is not None and limit < len(data):
            return SEAM.fs.op_write(fd, data[:limit])
        return SEAM.fs.op_write(fd, data)

    return _gate("write" if chunkable else "write_os", fd, thunk, "cleanup",
                 len(data))


def sim_os_ftruncate(fd, n):
    return _gate("ftruncate", fd, lambda f: SEAM.fs.op_ftruncate(fd, n),
                 "cleanup")


def _modeflags(mode: str):
    creating = "x" in mode
    reading = "r" in mode
    writing = "w" in mode
    appending = "a" in mode
    updating = "+" in mode
    if creating + reading + writing + appending != 1:
        raise ValueError(f"invalid mode: {mode!r}")
    if reading:
        flags = os.O_RDWR if updating else os.O_RDONLY
    else:
        flags = os.O_RDWR if updating else os.O_WRONLY
        flags |= os.O_CREAT
        if writing:
            flags |= os.O_TRUNC
        if appending:
            flags |= os.O_APPEND
        if creating:
            flags |= os.O_EXCL
    return flags | getattr(os, "O_CLOEXEC", 0)


def sim_open(file, mode="r", buffering=-1, encoding=None, errors=None,
             newline=None, closefd=True, opener=None):
    """io.open() for sim paths / sim fds, following _pyio.open"""
    if not isinstance(mode, str):
        raise TypeError("invalid mode: %r" % mode)
    modes = set(mode)
    if modes - set("axrwb+t") or len(mode) > len(modes):
        raise ValueError("invalid mode: %r" % mode)
    binary = "b" in modes
    text = "t" in modes
    if text and binary:
        raise ValueError("can't have text and binary mode at once")
    if binary and encoding is not None:
        raise ValueError("binary mode doesn't take an encoding argument")
    rawmode = "".join(c for c in mode if c in "xrwa+")
    if isinstance(file, int):
        fd = file
        name = fd
    else:
        name = os.fspath(file)
        flags = _modeflags(rawmode)
        if opener is None:
            fd = sim_os_open(name, flags, 0o666)
        else:
            fd = opener(name, flags)
            if not is_sim_fd(fd):
                raise SimUnsupported("opener returned a non-sim fd for a sim "
                                     "path")
    st = SEAM.fs.op_fstat(fd)
    if statmod.S_ISDIR(st.st_mode):
        sim_os_close(fd)
        raise IsADirectoryError(errno.EISDIR, os.strerror(errno.EISDIR), name)
    raw = SimRaw(fd, rawmode, name, closefd)
    if "a" in rawmode:
        SEAM.fs.op_lseek(fd, 0, 2)
    line_buffering = False
    if buffering == 1 and not binary:
        buffering = -1
        line_buffering = True
    if buffering < 0:
        buffering = io.DEFAULT_BUFFER_SIZE
    if buffering == 0:
        if binary:
            return raw
        raise ValueError("can't have unbuffered text I/O")
    if "+" in rawmode:
        buf = io.BufferedRandom(raw, buffering)
    elif any(c in rawmode for c in "xwa"):
        buf = io.BufferedWriter(raw, buffering)
    else:
        buf = io.BufferedReader(raw, buffering)
    if binary:
        return buf
    if encoding is None or encoding == "locale":
        # the locale encoding of the calling (virtual) process
        g = SEAM.gate
        encoding = g.locale_encoding() if g is not None and hasattr(
            g, "locale_encoding") else "utf-8"
    txt = io.TextIOWrapper(buf, encoding, errors, newline, line_buffering)
    txt.mode = mode
    return txt


# ---------------------------------------------------------------------------
# dispatchers

_REAL = {}
_installed = False


class _SimDirEntry:
    def __init__(self, dirpath, name):
        self.name = name
        self.path = os.path.join(dirpath, name)

    def _st(self):
        return SEAM.fs.op_stat(self.path)

    def is_dir(self, *, follow_symlinks=True):
        return statmod.S_ISDIR(self._st().st_mode)

    def is_file(self, *, follow_symlinks=True):
        return statmod.S_ISREG(self._st().st_mode)

    def is_symlink(self):
        return False

    def stat(self, *, follow_symlinks=True):
        return self._st()

    def inode(self):
        return self._st().st_ino

    def __fspath__(self):
        return self.path


class _SimScandir:
    def __init__(self, entries):
        self._it = iter(entries)

    def __iter__(self):
        return self

    def __next__(self):
        return next(self._it)

    def __enter__(self):
        return self

    def __exit__(self, *a):
        return False

    def close(self):
        pass


def install():
    """replace the Python-level file seams by dispatchers (idempotent)"""
    global _installed
    if _installed:
        return
    _installed = True
    R = _REAL
    for name in ("open", "close", "read", "write", "fsync", "fdatasync",
                 "ftruncate", "fstat", "lseek", "stat", "lstat", "access",
                 "mkdir", "rmdir", "listdir", "scandir", "replace", "rename",
                 "unlink", "remove", "chmod", "utime", "truncate", "link",
                 "symlink", "readlink", "isatty", "chown", "fchmod", "dup"):
        R["os." + name] = getattr(os, name)
    R["io.open"] = io.open
    R["builtins.open"] = builtins.open

    def d_open(file, mode="r", buffering=-1, encoding=None, errors=None,
               newline=None, closefd=True, opener=None):
        if (is_sim_fd(file) if isinstance(file, int) else is_sim_path(file)):
            return sim_open(file, mode, buffering, encoding, errors, newline,
                            closefd, opener)
        return R["io.open"](file, mode, buffering, encoding, errors, newline,
                            closefd, opener)

    io.open = d_open
    builtins.open = d_open

    def d_os_open(path, flags, mode=0o777, *, dir_fd=None):
        if is_sim_path(path):
            return sim_os_open(path, flags, mode, dir_fd=dir_fd)
        return R["os.open"](path, flags, mode, dir_fd=dir_fd)

    os.open = d_os_open

    def fd_dispatch(name, simfn):
        real = R["os." + name]

        def d(fd, *a, **k):
            if is_sim_fd(fd):
                return simfn(fd, *a, **k)
            return real(fd, *a, **k)

        d.__name__ = name
        setattr(os, name, d)

    fd_dispatch("close", sim_os_close)
    fd_dispatch("read", sim_os_read)
    fd_dispatch("write", lambda fd, data: sim_os_write(fd, data))
    fd_dispatch(
        "fsync", lambda fd: _gate("fsync", fd, lambda f: None, "cleanup"))
    fd_dispatch(
        "fdatasync", lambda fd: _gate("fsync", fd, lambda f: None, "cleanup"))
    fd_dispatch("ftruncate", sim_os_ftruncate)
    fd_dispatch("fstat", lambda fd: SEAM.fs.op_fstat(fd))
    fd_dispatch("lseek", lambda fd, pos, how: SEAM.fs.op_lseek(fd, pos, how))
    fd_dispatch("isatty", lambda fd: False)

    def unsupported(name):
        def f(*a, **k):
            raise SimUnsupported(f"os.{name} on a sim path/fd")

        return f

    def s_fchmod(fd, mode):
        o = SEAM.fs._ofd(fd)
        return _gate("chmod", fd, lambda f: SEAM.fs.op_chmod(o.path, mode)
                     if SEAM.fs.ents.get(o.path) is o.inode else setattr(
                         o.inode, "mode", mode & 0o777), "cleanup")

    fd_dispatch("fchmod", s_fchmod)
    fd_dispatch("dup", unsupported("dup"))

    def path_dispatch(name, simfn, npaths=1):
        real = R["os." + name]

        def d(*a, **k):
            paths = a[:npaths]
            hit = False
            for p in paths:
                if isinstance(p, int):
                    hit = hit or is_sim_fd(p)
                else:
                    hit = hit or is_sim_path(p)
            if "path" in k and is_sim_path(k["path"]):
                hit = True
            if hit:
                if k.get("dir_fd") is not None or k.get(
                        "src_dir_fd") is not None:
                    raise SimUnsupported(f"os.{name} with dir_fd")
                k.pop("dir_fd", None)
                k.pop("follow_symlinks", None)
                if "path" in k:
                    a = (k.pop("path"), ) + a
                return simfn(*a, **k)
            return real(*a, **k)

        d.__name__ = name
        setattr(os, name, d)

    def s_stat(path):
        if isinstance(path, int):
            return SEAM.fs.op_fstat(path)
        return _gate("stat", SimFS.norm(path),
                     lambda f: SEAM.fs.op_stat(path))

    path_dispatch("stat", s_stat)
    path_dispatch("lstat", s_stat)
    path_dispatch(
        "access", lambda path, mode, **k: _gate(
            "access", SimFS.norm(path), lambda f: SEAM.fs.op_access(
                path, mode)))
    path_dispatch(
        "mkdir", lambda path, mode=0o777: _gate(
            "mkdir", SimFS.norm(path), lambda f: SEAM.fs.op_mkdir(path, mode)))
    path_dispatch(
        "rmdir", lambda path: _gate("rmdir", SimFS.norm(path), lambda f: SEAM.
                                    fs.op_rmdir(path)))
    path_dispatch(
        "listdir", lambda path: _gate("listdir", SimFS.norm(path), lambda f:
                                      SEAM.fs.op_listdir(path)))

    def s_scandir(path):
        names = _gate("listdir", SimFS.norm(path),
                      lambda f: SEAM.fs.op_listdir(path))
        return _SimScandir([_SimDirEntry(os.fspath(path), n) for n in names])

    path_dispatch("scandir", s_scandir)

    def s_rename(src, dst):
        if not (is_sim_path(src) and is_sim_path(dst)):
            # the simulated home is its own file system: a rename from or to
            # the real one (e.g. a system temp dir) is a cross-device link
            raise OSError(errno.EXDEV, os.strerror(errno.EXDEV),
                          os.fspath(src), None, os.fspath(dst))
        return _gate("rename", SimFS.norm(dst),
                     lambda f: SEAM.fs.op_rename(src, dst), "cleanup")

    path_dispatch("rename", s_rename, 2)
    path_dispatch("replace", s_rename, 2)

    def s_unlink(path):
        return _gate("unlink", SimFS.norm(path),
                     lambda f: SEAM.fs.op_unlink(path), "cleanup")

    path_dispatch("unlink", s_unlink)
    path_dispatch("remove", s_unlink)
    path_dispatch(
        "chmod", lambda path, mode: _gate("chmod", SimFS.norm(path), lambda f:
                                          SEAM.fs.op_chmod(path, mode)))
    path_dispatch(
        "utime", lambda path, times=None, **k: _gate(
            "utime", SimFS.norm(path), lambda f: SEAM.fs.op_utime(
                path, times), "local"))
    path_dispatch(
        "truncate", lambda path, length: _gate(
            "truncate", SimFS.norm(path), lambda f: SEAM.fs.op_truncate(
                path, length), "cleanup"))

    def s_link(src, dst):
        return _gate("link", SimFS.norm(dst),
                     lambda f: SEAM.fs.op_link(src, dst))

    path_dispatch("link", s_link, 2)
    path_dispatch("symlink", unsupported("symlink"), 2)
    path_dispatch("readlink", unsupported("readlink"))
    path_dispatch("chown", unsupported("chown"))

    # advisory locks on sim fds: flock / lockf (whole file); the rest of fcntl
    # and mmap on sim fds are not modelled
    try:
        import fcntl

        def sim_lock(fd, operation, *a):
            fdn = fd if isinstance(fd, int) else fd.fileno()
            unlock = bool(operation & fcntl.LOCK_UN)
            exclusive = bool(operation & fcntl.LOCK_EX)
            nonblock = bool(operation & fcntl.LOCK_NB)
            while True:
                ok = _gate("flock", fdn, lambda f: SEAM.fs.op_flock(
                    fdn, exclusive, unlock))
                if ok:
                    return None
                if nonblock:
                    raise BlockingIOError(errno.EAGAIN,
                                          os.strerror(errno.EAGAIN))
                g = SEAM.gate
                if g is None or not g.block(fdn, exclusive):
                    raise SimUnsupported("blocking lock outside a virtual "
                                         "process")

        for nm in ("flock", "lockf"):
            realf = getattr(fcntl, nm)

            def mk2(realf):
                def d(fd, operation, *a, **k):
                    fdn = fd if isinstance(fd, int) else getattr(
                        fd, "fileno", lambda: -1)()
                    if is_sim_fd(fdn):
                        return sim_lock(fd, operation)
                    return realf(fd, operation, *a, **k)

                return d

            setattr(fcntl, nm, mk2(realf))
        for nm in ("fcntl", "ioctl"):
            realf = getattr(fcntl, nm)

            def mk(realf, nm):
                def d(fd, *a, **k):
                    fdn = fd if isinstance(fd, int) else getattr(
                        fd, "fileno", lambda: -1)()
                    if is_sim_fd(fdn):
                        raise SimUnsupported(f"fcntl.{nm} on a sim fd")
                    return realf(fd, *a, **k)

                return d

            setattr(fcntl, nm, mk(realf, nm))
    except ImportError:
        pass


def real(name):
    return _REAL[name]
